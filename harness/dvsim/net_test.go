// Package dvsim decides C18 (distance-vector routing converges to shortest paths on every
// topology/schedule) and C19 (routes installed by the routing daemon mirror its tables; prefix
// logs replicate).
//
// Every router is a real dv.Router running inside a testing/synctest bubble; this file is
// the network those routers live in: an ndn.Engine per router whose Express / AttachHandler
// / ExecMgmtCmd are served by the harness, a per-router reference forwarder (route table
// fed by the router's own rib register/unregister commands, longest-prefix match with
// inherited routes, multicast / best-route strategy, /localhop scope, hop limit), links with
// generated delays and (for periodic sync Interests only) generated losses, and a
// single-goroutine driver that delivers queued packets in virtual-time order.
package dvsim

import (
	"container/heap"
	"fmt"
	"sort"
	"sync"
	"testing/synctest"
	"time"

	"github.com/named-data/ndnd/dv/dv"
	dvtlv "github.com/named-data/ndnd/dv/tlv"
	enc "github.com/named-data/ndnd/std/encoding"
	"github.com/named-data/ndnd/std/engine/basic"
	"github.com/named-data/ndnd/std/ndn"
	mgmt "github.com/named-data/ndnd/std/ndn/mgmt_2022"
	spec "github.com/named-data/ndnd/std/ndn/spec_2022"
	svs "github.com/named-data/ndnd/std/ndn/svs_2024"
)

const (
	netPrefix = "/net"
	appFace   = uint64(1)
	firstFace = uint64(300)
	infinity  = uint64(16)
	nackNoRte = uint64(150)

	minHopDelay = 5 * time.Millisecond
	stormLimit  = 400  // advertisement changes of one router between two settling points
	serveLimit  = 3000 // advertisements served by one router between two settling points
)

// routerNames: deliberately of different lengths; the order of their hashes (which the
// router uses to break ties) is unrelated to the order of the indices.
var routerNames = namesFlat

var namesFlat = []string{"/r0", "/net/r1", "/r2/x", "/net/r3", "/r4", "/r5/y/z"}

// namesNested: router names that are prefixes of one another (a site router /r0 and its gateway
// /r0/gw): legal, and routing must not care (all the routers' own prefixes are set apart by keyword
// components). Seeded C18-r10-2 ignored neighbours whose name extends the router's own.
var namesNested = []string{"/r0", "/r0/gw", "/r2/x", "/r2", "/r0/gw/z", "/r2/x/y"}

// Cmd is one recorded management command of a router.
type Cmd struct {
	At     time.Duration // virtual time since the start of the case
	Module string
	Verb   string
	Name   string
	Face   uint64 // 0 = not given (the requesting application face)
	Cost   uint64
	Origin uint64
	HasOrg bool
}

type link struct {
	a, b         int
	up           bool
	faceA, faceB uint64
	mode         int // 0: both ends have the static active-sync route; 1: only a; 2: only b
	gen          int // bumped whenever the link is removed or re-created
}

func (l *link) faceAt(n int) uint64 {
	if n == l.a {
		return l.faceA
	}
	return l.faceB
}

func (l *link) peer(n int) int {
	if n == l.a {
		return l.b
	}
	return l.a
}

type handlerEnt struct {
	prefix enc.Name
	h      ndn.InterestHandler
}

// node is one router plus its (reference) forwarder.
type node struct {
	id      int
	name    enc.Name
	nameStr string
	up      bool
	inst    int // instance number, bumped at every (re)start
	eng     *engine
	router  *dv.Router
	done    chan struct{}
	// reference forwarder state
	routes   map[string]map[uint64]uint64 // prefix -> face -> cost
	strategy map[string]bool              // prefix -> multicast?
	faces    map[uint64]*link             // link faces that ever existed at this instance
	nextFace uint64
	// observations
	cmds     []Cmd
	lastCmd  time.Duration
	announce map[string]bool // ground truth: prefixes this router currently announces
}

// pending is one expressed Interest.
type pending struct {
	src      int
	srcInst  int
	name     enc.Name
	interest ndn.Interest
	cb       ndn.ExpressCallbackFunc
	deadline time.Time
	done     bool
	visited  map[int]bool
	kind     string
	hopLimit *uint
}

const (
	itInterest = iota
	itData
	itNack
	itTimeout
)

type item struct {
	at   time.Time
	seq  uint64
	kind int
	p    *pending
	// itInterest: arrives at node `to` on face `face` (appFace: expressed by the local router)
	to   int
	face uint64
	gen  int
	hl   int // remaining hop limit, -1 = none
	path []pathHop
	raw  []byte // itData
}

type pathHop struct {
	l   *link
	gen int
}

type itemHeap []*item

func (h itemHeap) Len() int { return len(h) }
func (h itemHeap) Less(i, j int) bool {
	if !h[i].at.Equal(h[j].at) {
		return h[i].at.Before(h[j].at)
	}
	return h[i].seq < h[j].seq
}
func (h itemHeap) Swap(i, j int) { h[i], h[j] = h[j], h[i] }
func (h *itemHeap) Push(x any)   { *h = append(*h, x.(*item)) }
func (h *itemHeap) Pop() any {
	old := *h
	n := len(old)
	x := old[n-1]
	*h = old[:n-1]
	return x
}

// Sched are the generated parameters of the delivery schedule.
type Sched struct {
	Seed     uint64 `json:"seed"`
	MaxDelay int    `json:"maxd"` // per-hop delay is uniform in 0..MaxDelay ms, per packet
	DropPct  int    `json:"drop"` // loss probability of sync Interests inside chaos windows
	// FetchDrop: loss probability (per link hop) of the Interests that fetch advertisements,
	// prefix operations and snapshots, inside chaos windows only: the fetch then times out and
	// the router has to retry
	FetchDrop int `json:"fdrop,omitempty"`
}

type network struct {
	mu    sync.Mutex
	t0    time.Time
	sched Sched
	nodes []*node
	links map[[2]int]*link
	queue itemHeap
	seq   uint64
	wake  chan struct{}
	chaos bool
	flow  map[string]uint64 // per-flow packet counters (drive the delay/drop hash)

	// observations
	advertViolation string         // first advertisement seen with a cost >= infinity
	adverts         int            // advertisements observed on the wire
	lastAdvert      map[int][]byte // last advertisement content per router
	advChanges      map[int]int    // per router: changes of its advertisement since the last settling point
	advServed       map[int]int    // per router: advertisements served since the last settling point
	lastChange      time.Duration  // last time an advertisement changed or a command was issued
	counts          map[string]int
	snapSeen        map[[2]int]bool // (fetcher, owner): prefix data already applied once
	resnap          int             // snapshot fetches by a peer that had data of that router before
	harnessErr      string          // internal inconsistency of the harness (never a verdict)
	storm           string          // a router's advertisement keeps changing: the simulation is cut short
}

func newNetwork(n int, sched Sched) *network {
	nw := &network{
		t0:         time.Now(),
		sched:      sched,
		links:      map[[2]int]*link{},
		wake:       make(chan struct{}, 1),
		flow:       map[string]uint64{},
		lastAdvert: map[int][]byte{},
		advChanges: map[int]int{},
		advServed:  map[int]int{},
		counts:     map[string]int{},
		snapSeen:   map[[2]int]bool{},
	}
	for i := 0; i < n; i++ {
		nm := mustName(routerNames[i])
		nw.nodes = append(nw.nodes, &node{id: i, name: nm, nameStr: nm.String()})
	}
	return nw
}

func mustName(s string) enc.Name {
	n, err := enc.NameFromStr(s)
	if err != nil {
		panic(err)
	}
	return n
}

func (nw *network) since() time.Duration { return time.Since(nw.t0) }

func (nw *network) poke() {
	select {
	case nw.wake <- struct{}{}:
	default:
	}
}

// push must be called with nw.mu held.
func (nw *network) push(it *item) {
	nw.seq++
	it.seq = nw.seq
	heap.Push(&nw.queue, it)
	nw.poke()
}

// ---------------------------------------------------------------------------- hashing

func splitmix(x uint64) uint64 {
	x += 0x9e3779b97f4a7c15
	x = (x ^ (x >> 30)) * 0xbf58476d1ce4e5b9
	x = (x ^ (x >> 27)) * 0x94d049bb133111eb
	return x ^ (x >> 31)
}

func hashStr(s string) uint64 {
	h := uint64(1469598103934665603)
	for i := 0; i < len(s); i++ {
		h = (h ^ uint64(s[i])) * 1099511628211
	}
	return h
}

// draw returns a schedule decision for the k-th packet of a flow: a pure function of the
// generated seed, the flow and k (so that it does not depend on goroutine interleaving).
func (nw *network) draw(flow string) uint64 {
	k := nw.flow[flow]
	nw.flow[flow] = k + 1
	return splitmix(splitmix(nw.sched.Seed^hashStr(flow)) + k)
}

// delay of one link hop: 5 ms (so that a request/response loop always advances virtual
// time) plus the generated per-packet jitter.
func (nw *network) delay(kind string, from, to int) time.Duration {
	if nw.sched.MaxDelay <= 0 {
		return minHopDelay
	}
	r := nw.draw(fmt.Sprintf("d/%s/%d/%d", kind, from, to))
	return minHopDelay + time.Duration(r%uint64(nw.sched.MaxDelay+1))*time.Millisecond
}

func (nw *network) dropSync(kind string, from, to int) bool {
	if !nw.chaos || nw.sched.DropPct <= 0 {
		return false
	}
	r := nw.draw(fmt.Sprintf("x/%s/%d/%d", kind, from, to))
	return int(r%100) < nw.sched.DropPct
}

// ---------------------------------------------------------------------------- engine

// engine is the ndn.Engine handed to one dv.Router instance.
type engine struct {
	nw       *network
	n        *node
	inst     int
	handlers []handlerEnt
	running  bool
	timer    ndn.Timer
}

func (e *engine) EngineTrait() ndn.Engine { return e }
func (e *engine) Spec() ndn.Spec          { return spec.Spec{} }
func (e *engine) Timer() ndn.Timer        { return e.timer }
func (e *engine) Start() error            { return nil }
func (e *engine) Stop() error             { return nil }

func (e *engine) IsRunning() bool {
	e.nw.mu.Lock()
	defer e.nw.mu.Unlock()
	return e.running
}

func (e *engine) AttachHandler(prefix enc.Name, handler ndn.InterestHandler) error {
	e.nw.mu.Lock()
	defer e.nw.mu.Unlock()
	for _, h := range e.handlers {
		if h.prefix.Equal(prefix) {
			return ndn.ErrMultipleHandlers
		}
	}
	e.handlers = append(e.handlers, handlerEnt{prefix.Clone(), handler})
	return nil
}

func (e *engine) DetachHandler(prefix enc.Name) error {
	e.nw.mu.Lock()
	defer e.nw.mu.Unlock()
	for i, h := range e.handlers {
		if h.prefix.Equal(prefix) {
			e.handlers = append(e.handlers[:i], e.handlers[i+1:]...)
			return nil
		}
	}
	return ndn.ErrInvalidValue{Item: "prefix", Value: prefix}
}

func (e *engine) RegisterRoute(prefix enc.Name) error {
	return e.ExecMgmtCmd("rib", "register", &mgmt.ControlArgs{Name: prefix})
}

func (e *engine) UnregisterRoute(prefix enc.Name) error {
	return e.ExecMgmtCmd("rib", "unregister", &mgmt.ControlArgs{Name: prefix})
}

// lookupHandler: longest attached prefix of name (as std/engine/basic does).
func (e *engine) lookupHandler(name enc.Name) ndn.InterestHandler {
	best := -1
	var h ndn.InterestHandler
	for _, ent := range e.handlers {
		if len(ent.prefix) > best && ent.prefix.IsPrefix(name) {
			best = len(ent.prefix)
			h = ent.h
		}
	}
	return h
}

func classify(name enc.Name) string {
	has := func(s string) bool {
		for _, c := range name {
			if c.Typ == enc.TypeKeywordNameComponent && string(c.Val) == s {
				return true
			}
		}
		return false
	}
	switch {
	case has("ACT"):
		return "sync-act"
	case has("PSV"):
		return "sync-psv"
	case has("PFS"):
		return "sync-pfs"
	case has("ADV"):
		return "adv"
	case has("SNAP"):
		return "snap"
	case has("PFX"):
		return "pfx"
	}
	return "other"
}

func (e *engine) Express(interest *ndn.EncodedInterest, cb ndn.ExpressCallbackFunc) error {
	parsed, _, err := spec.Spec{}.ReadInterest(enc.NewBufferReader(interest.Wire.Join()))
	if err != nil {
		return err
	}
	nw := e.nw
	nw.mu.Lock()
	defer nw.mu.Unlock()
	if !e.running {
		return ndn.ErrFaceDown
	}
	lifetime := 4 * time.Second
	if interest.Config.Lifetime != nil {
		lifetime = *interest.Config.Lifetime
	}
	now := time.Now()
	p := &pending{
		src: e.n.id, srcInst: e.inst, name: parsed.Name(), interest: parsed, cb: cb,
		deadline: now.Add(lifetime), visited: map[int]bool{}, kind: classify(parsed.Name()),
		hopLimit: parsed.HopLimit(),
	}
	nw.counts["express-"+p.kind]++
	if p.kind == "snap" && nw.snapSeen[[2]int{e.n.id, nw.ownerOf(p.name)}] {
		nw.resnap++
	}
	hl := -1
	if p.hopLimit != nil {
		hl = int(*p.hopLimit)
	}
	nw.push(&item{at: now, kind: itInterest, p: p, to: e.n.id, face: appFace, hl: hl})
	if cb != nil {
		nw.push(&item{at: p.deadline.Add(10 * time.Millisecond), kind: itTimeout, p: p})
	}
	return nil
}

// ownerOf returns the index of the router whose name is the longest prefix of name (-1 if none).
func (nw *network) ownerOf(name enc.Name) int {
	best, bi := -1, -1
	for _, n := range nw.nodes {
		if len(n.name) > best && n.name.IsPrefix(name) {
			best, bi = len(n.name), n.id
		}
	}
	return bi
}

func (e *engine) ExecMgmtCmd(module string, cmd string, args any) error {
	a, ok := args.(*mgmt.ControlArgs)
	if !ok {
		return ndn.ErrInvalidValue{Item: "args", Value: args}
	}
	nw := e.nw
	nw.mu.Lock()
	defer nw.mu.Unlock()
	if !e.running {
		// the router is being torn down (SvSync.Stop unregisters its route): nothing to record
		return nil
	}
	n := e.n
	c := Cmd{At: nw.since(), Module: module, Verb: cmd}
	if a.Name != nil {
		c.Name = a.Name.String()
	}
	if a.FaceId != nil {
		c.Face = *a.FaceId
	}
	if a.Cost != nil {
		c.Cost = *a.Cost
	}
	if a.Origin != nil {
		c.Origin, c.HasOrg = *a.Origin, true
	}
	n.cmds = append(n.cmds, c)
	n.lastCmd = c.At
	switch module + "/" + cmd {
	case "rib/register":
		f := c.Face
		if f == 0 {
			f = appFace
		}
		m := n.routes[c.Name]
		if m == nil {
			m = map[uint64]uint64{}
			n.routes[c.Name] = m
		}
		if old, had := m[f]; !had || old != c.Cost {
			nw.lastChange = c.At
		}
		m[f] = c.Cost
	case "rib/unregister":
		f := c.Face
		if f == 0 {
			f = appFace
		}
		if m := n.routes[c.Name]; m != nil {
			if _, had := m[f]; had {
				nw.lastChange = c.At
			}
			delete(m, f)
			if len(m) == 0 {
				delete(n.routes, c.Name)
			}
		}
	case "strategy-choice/set":
		if a.Strategy != nil {
			n.strategy[c.Name] = a.Strategy.Name.String() == "/localhost/nfd/strategy/multicast"
		}
	}
	return nil
}

// ---------------------------------------------------------------------------- forwarder

// nextHops: union of the routes of every prefix of name (routes are registered with the
// default child-inherit flag); the cost of a face is that of its longest such prefix.
func (n *node) nextHops(name enc.Name) map[uint64]uint64 {
	out := map[uint64]uint64{}
	for k := len(name); k >= 0; k-- {
		for f, c := range n.routes[name[:k].String()] {
			if _, ok := out[f]; !ok {
				out[f] = c
			}
		}
	}
	return out
}

func (n *node) multicast(name enc.Name) bool {
	for k := len(name); k >= 0; k-- {
		if mc, ok := n.strategy[name[:k].String()]; ok {
			return mc
		}
	}
	return false
}

func firstIs(name enc.Name, s string) bool {
	return len(name) > 0 && name[0].Typ == enc.TypeGenericNameComponent && string(name[0].Val) == s
}

type localDelivery struct {
	h    ndn.InterestHandler
	args ndn.InterestHandlerArgs
}

// forward processes one Interest arriving at a forwarder. Called with nw.mu held; returns the
// local deliveries to perform after the lock is released.
func (nw *network) forward(it *item) (out []localDelivery) {
	n := nw.nodes[it.to]
	p := it.p
	if !n.up {
		return
	}
	if it.face != appFace {
		l := n.faces[it.face]
		if l == nil || !l.up || l.gen != it.gen || l.faceAt(n.id) != it.face {
			nw.counts["lost-on-dead-link"]++
			return
		}
	} else if n.inst != p.srcInst {
		return
	}
	if p.visited[n.id] {
		nw.counts["duplicate-suppressed"]++
		return
	}
	p.visited[n.id] = true
	hl := it.hl
	if hl >= 0 {
		if hl == 0 {
			return
		}
		hl--
	}
	localOnly := false
	if it.face != appFace && firstIs(p.name, "localhop") {
		localOnly = true
	}
	if firstIs(p.name, "localhost") {
		localOnly = true
	}
	if hl == 0 {
		localOnly = true
	}
	hops := n.nextHops(p.name)
	var faces []uint64
	for f := range hops {
		if f == it.face {
			continue
		}
		if localOnly && f != appFace {
			continue
		}
		faces = append(faces, f)
	}
	sort.Slice(faces, func(i, j int) bool {
		if hops[faces[i]] != hops[faces[j]] {
			return hops[faces[i]] < hops[faces[j]]
		}
		return faces[i] < faces[j]
	})
	if len(faces) == 0 {
		if p.cb != nil && !n.multicast(p.name) {
			nw.counts["nack-noroute"]++
			nw.push(&item{at: time.Now().Add(nw.delay("nack", n.id, p.src)), kind: itNack, p: p})
		}
		return
	}
	if !n.multicast(p.name) {
		faces = faces[:1]
	}
	now := time.Now()
	for _, f := range faces {
		if f == appFace {
			h := n.eng.lookupHandler(p.name)
			if h == nil {
				continue
			}
			inFace := it.face
			args := ndn.InterestHandlerArgs{
				Interest:       p.interest,
				Deadline:       p.deadline,
				IncomingFaceId: &inFace,
			}
			args.Reply = nw.replyFunc(n, n.inst, p, it.path)
			out = append(out, localDelivery{h, args})
			nw.counts["deliver-"+p.kind]++
			continue
		}
		l := n.faces[f]
		if l == nil || !l.up || l.faceAt(n.id) != f {
			nw.counts["sent-to-dead-face"]++
			continue
		}
		m := l.peer(n.id)
		if p.cb == nil && nw.dropSync(p.kind, n.id, m) {
			nw.counts["dropped-"+p.kind]++
			continue
		}
		if p.cb != nil && nw.chaos && nw.sched.FetchDrop > 0 && (p.kind == "adv" || p.kind == "pfx" || p.kind == "snap") {
			if r := nw.draw(fmt.Sprintf("fx/%s/%d/%d", p.kind, n.id, m)); int(r%100) < nw.sched.FetchDrop {
				nw.counts["dropped-fetch-"+p.kind]++
				continue
			}
		}
		path := make([]pathHop, len(it.path), len(it.path)+1)
		copy(path, it.path)
		path = append(path, pathHop{l, l.gen})
		nw.push(&item{at: now.Add(nw.delay(p.kind, n.id, m)), kind: itInterest, p: p,
			to: m, face: l.faceAt(m), gen: l.gen, hl: hl, path: path})
	}
	return
}

func (nw *network) replyFunc(n *node, inst int, p *pending, path []pathHop) ndn.WireReplyFunc {
	return func(wire enc.Wire) error {
		raw := wire.Join()
		nw.mu.Lock()
		defer nw.mu.Unlock()
		if !n.up || n.inst != inst {
			return ndn.ErrFaceDown
		}
		now := time.Now()
		if p.deadline.Before(now) {
			return ndn.ErrDeadlineExceed
		}
		nw.observeData(n, p, raw)
		if p.cb == nil {
			return nil
		}
		d := minHopDelay / 10
		for range path {
			d += nw.delay("data-"+p.kind, n.id, p.src)
		}
		nw.push(&item{at: now.Add(d), kind: itData, p: p, raw: raw, path: path})
		return nil
	}
}

// observeData looks at every Data a router puts on the wire. Advertisements are parsed and
// checked against the invariant "no destination is listed at a cost >= infinity".
func (nw *network) observeData(n *node, p *pending, raw []byte) {
	if p.kind != "adv" {
		return
	}
	data, _, err := spec.Spec{}.ReadData(enc.NewBufferReader(raw))
	if err != nil {
		nw.harnessErr = fmt.Sprintf("advertisement Data of %s does not parse: %v", n.nameStr, err)
		return
	}
	content := data.Content().Join()
	adv, err := dvtlv.ParseAdvertisement(enc.NewBufferReader(content), false)
	if err != nil {
		nw.harnessErr = fmt.Sprintf("advertisement of %s does not parse: %v", n.nameStr, err)
		return
	}
	nw.adverts++
	nw.advServed[n.id]++
	if nw.advServed[n.id] > serveLimit && nw.storm == "" {
		nw.storm = fmt.Sprintf("at t=%v router %s has been asked for its advertisement %d times since the last settling point (every new sequence number makes each neighbour fetch once): the routers keep announcing changes, no fixed point is being approached", nw.since(), n.nameStr, nw.advServed[n.id])
	}
	for _, e := range adv.Entries {
		if e.Cost >= infinity && nw.advertViolation == "" {
			dst := "?"
			if e.Destination != nil {
				dst = e.Destination.Name.String()
			}
			nw.advertViolation = fmt.Sprintf("at t=%v router %s served advertisement %s listing destination %s at cost %d (>= infinity %d)",
				nw.since(), n.nameStr, data.Name(), dst, e.Cost, infinity)
		}
	}
	canon := canonAdvert(adv)
	if string(nw.lastAdvert[n.id]) != canon {
		nw.lastAdvert[n.id] = []byte(canon)
		nw.advChanges[n.id]++
		if nw.advChanges[n.id] > stormLimit && nw.storm == "" {
			nw.storm = fmt.Sprintf("at t=%v the advertisement of router %s has changed %d times since the last settling point: no fixed point is being approached (counting to infinity takes at most 16 changes per lost destination)", nw.since(), n.nameStr, nw.advChanges[n.id])
		}
		nw.lastChange = nw.since()
	}
}

func canonAdvert(adv *dvtlv.Advertisement) string {
	var rows []string
	for _, e := range adv.Entries {
		d, h := "", ""
		if e.Destination != nil {
			d = e.Destination.Name.String()
		}
		if e.NextHop != nil {
			h = e.NextHop.Name.String()
		}
		rows = append(rows, fmt.Sprintf("%s>%s:%d/%d", d, h, e.Cost, e.OtherCost))
	}
	sort.Strings(rows)
	return fmt.Sprint(rows)
}

// process handles one due queue item. Called without the lock.
func (nw *network) process(it *item) {
	switch it.kind {
	case itInterest:
		nw.mu.Lock()
		out := nw.forward(it)
		nw.mu.Unlock()
		for _, d := range out {
			d.h(d.args)
		}
	case itData:
		nw.mu.Lock()
		p := it.p
		src := nw.nodes[p.src]
		ok := !p.done && src.up && src.inst == p.srcInst && !p.deadline.Before(time.Now())
		for _, h := range it.path {
			if !h.l.up || h.l.gen != h.gen {
				ok = false
				nw.counts["data-lost-on-dead-link"]++
			}
		}
		var args ndn.ExpressCallbackArgs
		if ok {
			data, sigCov, err := spec.Spec{}.ReadData(enc.NewBufferReader(it.raw))
			if err != nil {
				ok = false
				nw.harnessErr = fmt.Sprintf("Data for %s does not parse: %v", p.name, err)
			} else if !(data.Name().Equal(p.name) || (p.interest.CanBePrefix() && p.name.IsPrefix(data.Name()))) {
				ok = false
				nw.counts["data-name-mismatch"]++
			} else {
				args = ndn.ExpressCallbackArgs{Result: ndn.InterestResultData, Data: data,
					RawData: enc.Wire{it.raw}, SigCovered: sigCov}
			}
		}
		if ok {
			p.done = true
			nw.counts["data-"+p.kind]++
			if p.kind == "pfx" || p.kind == "snap" {
				nw.snapSeen[[2]int{p.src, nw.ownerOf(p.name)}] = true
			}
		}
		nw.mu.Unlock()
		if ok {
			p.cb(args)
		}
	case itNack, itTimeout:
		nw.mu.Lock()
		p := it.p
		src := nw.nodes[p.src]
		ok := !p.done && src.up && src.inst == p.srcInst
		if ok {
			p.done = true
			if it.kind == itNack {
				nw.counts["nack-"+p.kind]++
			} else {
				nw.counts["timeout-"+p.kind]++
			}
		}
		nw.mu.Unlock()
		if ok {
			if it.kind == itNack {
				p.cb(ndn.ExpressCallbackArgs{Result: ndn.InterestResultNack, NackReason: nackNoRte})
			} else {
				p.cb(ndn.ExpressCallbackArgs{Result: ndn.InterestResultTimeout})
			}
		}
	}
}

// runFor drives the network for d of virtual time: it delivers every queued item when it
// is due, and lets the routers' own timers run in between.
func (nw *network) runFor(d time.Duration) {
	deadline := time.Now().Add(d)
	for {
		synctest.Wait()
		now := time.Now()
		var due []*item
		nw.mu.Lock()
		if nw.storm != "" {
			nw.mu.Unlock()
			return
		}
		for nw.queue.Len() > 0 && !nw.queue[0].at.After(now) {
			due = append(due, heap.Pop(&nw.queue).(*item))
		}
		next := deadline
		if nw.queue.Len() > 0 && nw.queue[0].at.Before(next) {
			next = nw.queue[0].at
		}
		// drain a stale wake-up: everything queued so far has been looked at
		select {
		case <-nw.wake:
		default:
		}
		nw.mu.Unlock()
		if len(due) > 0 {
			for _, it := range due {
				nw.process(it)
			}
			continue
		}
		if !now.Before(deadline) {
			return
		}
		timer := time.NewTimer(next.Sub(now))
		select {
		case <-nw.wake:
			timer.Stop()
		case <-timer.C:
		}
	}
}

// inFlight reports the number of queued fetch Interests / Data / Nacks (not time-outs, not
// sync Interests).
func (nw *network) inFlight() int {
	nw.mu.Lock()
	defer nw.mu.Unlock()
	k := 0
	for _, it := range nw.queue {
		if it.kind == itTimeout || it.p.done {
			continue
		}
		if it.p.cb != nil {
			k++
		}
	}
	return k
}

// ---------------------------------------------------------------------------- topology changes

func (nw *network) staticActRoute() string {
	return "/localhop" + netPrefix + "/32=DV/32=ADS/32=ACT"
}

func lkey(a, b int) [2]int {
	if a > b {
		a, b = b, a
	}
	return [2]int{a, b}
}

// setStatic (re-)installs the static active-sync route of a link end, as the operator of a
// deployment does for every configured neighbour.
func (nw *network) setStatic(n *node, l *link) {
	active := l.mode == 0 || (l.mode == 1 && n.id == l.a) || (l.mode == 2 && n.id == l.b)
	if !active || !n.up {
		return
	}
	m := n.routes[nw.staticActRoute()]
	if m == nil {
		m = map[uint64]uint64{}
		n.routes[nw.staticActRoute()] = m
	}
	m[l.faceAt(n.id)] = 0
}

func (nw *network) newFace(n *node, l *link) uint64 {
	f := n.nextFace
	n.nextFace++
	n.faces[f] = l
	return f
}

// addLink creates the link a-b (or brings it back). newFaces: the faces are re-created with
// fresh ids at both ends (otherwise a link that existed before keeps its face ids).
func (nw *network) addLink(a, b, mode int, newFaces bool) {
	nw.mu.Lock()
	defer nw.mu.Unlock()
	k := lkey(a, b)
	l := nw.links[k]
	if l == nil {
		l = &link{a: k[0], b: k[1], mode: mode}
		nw.links[k] = l
		newFaces = true
	}
	if l.up {
		return
	}
	l.up = true
	l.gen++
	for _, id := range []int{l.a, l.b} {
		n := nw.nodes[id]
		if !n.up {
			continue
		}
		cur := l.faceAt(id)
		if newFaces || cur == 0 || n.faces[cur] != l {
			// remove the static route of the destroyed face
			if m := n.routes[nw.staticActRoute()]; m != nil && cur != 0 {
				delete(m, cur)
			}
			f := nw.newFace(n, l)
			if id == l.a {
				l.faceA = f
			} else {
				l.faceB = f
			}
		}
		nw.setStatic(n, l)
	}
}

func (nw *network) removeLink(a, b int) {
	nw.mu.Lock()
	defer nw.mu.Unlock()
	if l := nw.links[lkey(a, b)]; l != nil && l.up {
		l.up = false
		l.gen++
	}
}

func (nw *network) linkUp(a, b int) bool {
	l := nw.links[lkey(a, b)]
	return l != nil && l.up
}

// adjacency returns the current graph over running routers.
func (nw *network) adjacency() [][]int {
	nw.mu.Lock()
	defer nw.mu.Unlock()
	adj := make([][]int, len(nw.nodes))
	for _, l := range nw.links {
		if l.up && nw.nodes[l.a].up && nw.nodes[l.b].up {
			adj[l.a] = append(adj[l.a], l.b)
			adj[l.b] = append(adj[l.b], l.a)
		}
	}
	for i := range adj {
		sort.Ints(adj[i])
	}
	return adj
}

var _ = svs.StateVector{}
var _ = basic.NewTimer
