package dvsim

import (
	"encoding/json"
	"os"
	"testing"
)

// TestDbgLoop runs the case in $DBG_CASE repeatedly without rapid (a panic kills the process
// and prints every goroutine).
func TestDbgLoop(t *testing.T) {
	b, err := os.ReadFile(os.Getenv("DBG_CASE"))
	if err != nil {
		t.Skip("no DBG_CASE")
	}
	var rf struct{ Case Case }
	if err := json.Unmarshal(b, &rf); err != nil {
		t.Fatal(err)
	}
	for i := 0; i < 30; i++ {
		runSim(t, rf.Case, rf.Case.Sched)
	}
}
