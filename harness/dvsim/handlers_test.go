package dvsim

// C18, handler level: ONE real dv.Router (dv.NewRouter, never Start()ed: no tickers, no
// management thread) on a fake engine that only records. The harness plays the neighbours
// and owns the schedule: it calls the router's handlers synchronously on its own goroutine
// (hooks Router.VerifOnSyncInterest / VerifOnAdvertData / VerifCheckDeadNeighbors) inside a
// testing/synctest bubble with GOMAXPROCS(1), so that a goroutine a handler spawns
// (`go dv.ribUpdate(ns)`, `go dv.advertDataFetch(..)`, `go dv.fibUpdate()`) does not run
// until the harness yields. This reaches what the network simulation (sim_test.go) cannot
// steer: a handler's deferred work racing the dead-neighbour sweep, and replies for an older
// sequence number overtaken by newer ones.
//
// The reference model below is written from dv/SPEC.md ("Advertisement Sync", "Update
// Processing", "Advertisement Computation") and the comments of the handlers, not from the
// implementation: it is a pure function of the history, independent of how the router's
// goroutines interleave. The router is judged only at quiescent points (after a `yield` or
// an `adv`, both of which end in synctest.Wait()).

import (
	"fmt"
	"runtime"
	"sort"
	"strings"
	"testing"
	"testing/synctest"
	"time"

	"github.com/named-data/ndnd/dv/config"
	"github.com/named-data/ndnd/dv/dv"
	dvtlv "github.com/named-data/ndnd/dv/tlv"
	enc "github.com/named-data/ndnd/std/encoding"
	"github.com/named-data/ndnd/std/engine/basic"
	"github.com/named-data/ndnd/std/ndn"
	spec "github.com/named-data/ndnd/std/ndn/spec_2022"
	svs "github.com/named-data/ndnd/std/ndn/svs_2024"
	"github.com/named-data/ndnd/std/security"
	"github.com/named-data/ndnd/std/utils"
	"pgregory.net/rapid"

	"verif/harness/internal/evid"
)

// hNames: index 0 is the router under test, 1..4 may be neighbours, everything may be a
// destination or a next hop named in an advertisement.
var hNames = []string{"/r0", "/net/r1", "/r2/x", "/net/r3", "/r4", "/r5/y/z", "/d6", "/net/d7"}

const hMaxNbr = 4

// hMaxOps: no further step is generated once a history has this many operations (a step is
// up to 9 operations, so a history has at most 28).
const hMaxOps = 20

// HEnt is one advertisement entry.
type HEnt struct {
	Dst   int    `json:"d"` // index into hNames
	Nh    int    `json:"h"` // index into hNames; 0 = the router under test (poison reverse)
	Cost  uint64 `json:"c"`
	Other uint64 `json:"o"`
}

// HOp is one stimulus.
type HOp struct {
	K    string `json:"k"`           // sync | data | sweep | yield | adv
	N    int    `json:"n,omitempty"` // sync, data: the neighbour (index into hNames)
	Seq  uint64 `json:"s,omitempty"` // sync, data: sequence number
	Face uint64 `json:"f,omitempty"` // sync: incoming face
	Act  bool   `json:"a,omitempty"` // sync: active (true) or passive prefix
	Ents []HEnt `json:"e,omitempty"` // data: the advertisement
	D    int64  `json:"d,omitempty"` // adv: milliseconds of virtual time
}

// HCase is one history.
type HCase struct {
	Dead int64 `json:"dead"` // router dead interval of the configuration, ms
	Ops  []HOp `json:"ops"`
}

// ---------------------------------------------------------------------------- reference model

type hNbr struct {
	seq      uint64        // current advertisement sequence number
	last     time.Duration // time of the last sync Interest
	seqSince time.Duration // when seq got its current value (in this incarnation)
	has      bool          // an advertisement has been accepted (in this incarnation)
	advSeq   uint64        // sequence number of the accepted advertisement
	adv      []HEnt        // the accepted advertisement
	pending  bool          // accepted an advertisement since the last quiescent point
}

type hKey struct {
	n   int
	seq uint64
}

type hModel struct {
	dead    time.Duration
	now     time.Duration
	nbrs    map[int]*hNbr
	removed map[int]bool  // neighbours that have been swept at least once
	everCur map[hKey]bool // (neighbour, seq) pairs that were current at some time
	lastDat string        // rendering of the last data op (duplicate detection)
	cls     map[string]bool
	// counters of the non-triviality rule
	accepted, swept, stale int
}

func newHModel(deadMs int64) *hModel {
	return &hModel{dead: time.Duration(deadMs) * time.Millisecond, nbrs: map[int]*hNbr{}, removed: map[int]bool{},
		everCur: map[hKey]bool{}, cls: map[string]bool{}}
}

// sync: a sync Interest of neighbour n announcing seq. SPEC "Advertisement Sync" 4: "On
// receiving a Sync Interest, the router updates the sequence number for the sending
// neighbor"; comments of advertSyncOnInterest: the only place where neighbours are created;
// an entry that is not newer than what is known changes nothing but the last-seen time.
func (m *hModel) sync(n int, seq uint64) {
	nb := m.nbrs[n]
	if nb == nil {
		nb = &hNbr{seq: seq, seqSince: m.now}
		m.nbrs[n] = nb
		if m.removed[n] {
			m.cls["neighbour-re-added"] = true
		}
	} else if seq > nb.seq {
		nb.seq, nb.seqSince = seq, m.now
		m.cls["sync-raises-seq"] = true
	} else if seq < nb.seq {
		m.cls["sync-with-lower-seq"] = true
	}
	nb.last = m.now
	m.everCur[hKey{n, nb.seq}] = true
}

// data: an advertisement of neighbour n for sequence number seq. Comments of
// advertDataHandler: unknown neighbour -> ignored; "Check if this is the latest
// advertisement" -> anything but the current sequence number is ignored.
func (m *hModel) data(n int, seq uint64, ents []HEnt) bool {
	s := fmt.Sprint(n, seq, ents)
	if s == m.lastDat {
		m.cls["duplicate-data"] = true
	}
	m.lastDat = s
	nb := m.nbrs[n]
	if nb == nil {
		if m.removed[n] {
			m.cls["data-for-removed-neighbour"] = true
		} else {
			m.cls["data-for-unknown-neighbour"] = true
		}
		return false
	}
	if seq != nb.seq {
		m.stale++
		if seq > nb.seq {
			m.cls["data-for-future-seq-refused"] = true
		} else if nb.has && nb.advSeq > seq {
			m.cls["stale-data-after-newer"] = true
		} else {
			m.cls["stale-data-refused"] = true
		}
		return false
	}
	if nb.has {
		m.cls["advertisement-replaced"] = true
	}
	if m.removed[n] {
		m.cls["advertisement-after-re-add"] = true
	}
	nb.has, nb.advSeq, nb.adv, nb.pending = true, seq, append([]HEnt(nil), ents...), true
	m.accepted++
	for _, e := range ents {
		if e.Nh == 0 {
			if e.Other < infinity {
				m.cls["poison-reverse-entry-finite-other"] = true
			} else {
				m.cls["poison-reverse-entry"] = true
			}
		} else if e.Cost+1 >= infinity {
			m.cls["entry-at-infinity"] = true
		}
	}
	return true
}

// sweep: one dead-neighbour check. SPEC: "Neighbor is considered dead if no update is
// received for the RouterDeadInterval period"; NeighborState.IsDead: strictly longer.
func (m *hModel) sweep() {
	var ids []int
	for n := range m.nbrs {
		ids = append(ids, n)
	}
	sort.Ints(ids)
	for _, n := range ids {
		nb := m.nbrs[n]
		age := m.now - nb.last
		if age > m.dead {
			delete(m.nbrs, n)
			m.removed[n] = true
			m.swept++
			m.cls["neighbour-swept"] = true
			if nb.pending {
				m.cls["data-then-sweep-without-yield"] = true
			}
			if nb.has {
				m.cls["swept-neighbour-had-routes"] = true
			}
		} else if age == m.dead {
			m.cls["sweep-at-exactly-the-dead-interval"] = true
		}
	}
}

// rib: SPEC "Update Processing", over the accepted advertisements of the neighbours that
// are in the table: destination -> neighbour -> cost (finite costs only).
func (m *hModel) rib() map[int]map[int]uint64 {
	out := map[int]map[int]uint64{}
	for n, nb := range m.nbrs {
		if !nb.has {
			continue
		}
		for _, e := range nb.adv {
			cost := e.Cost + 1
			if e.Nh == 0 {
				if e.Other < infinity {
					cost = e.Other + 1
				} else {
					cost = infinity
				}
			}
			if cost >= infinity {
				continue
			}
			if out[e.Dst] == nil {
				out[e.Dst] = map[int]uint64{}
			}
			out[e.Dst][n] = cost
		}
	}
	return out
}

func (m *hModel) quiesce() {
	for _, nb := range m.nbrs {
		nb.pending = false
	}
}

// ---------------------------------------------------------------------------- generator

// hUni draws an (almost) uniformly distributed number in [0, n). rapid's integer and
// SampledFrom generators favour small values so strongly that stated weights would be
// meaningless; single bits are fair, and shrink towards 0.
func hUni(t *rapid.T, label string, n int) int {
	if n <= 1 {
		return 0
	}
	bits := 3
	for 1<<(bits-3) < n {
		bits++
	}
	v := 0
	for i := 0; i < bits; i++ {
		v <<= 1
		if rapid.Bool().Draw(t, label) {
			v |= 1
		}
	}
	return v % n
}

// hRange: uniform in [lo, hi].
func hRange(t *rapid.T, label string, lo, hi int) int { return lo + hUni(t, label, hi-lo+1) }

// hPick: index drawn with the given weights.
func hPick(t *rapid.T, label string, weights ...int) int {
	sum := 0
	for _, w := range weights {
		sum += w
	}
	r := hUni(t, label, sum)
	for i, w := range weights {
		if r < w {
			return i
		}
		r -= w
	}
	return len(weights) - 1
}

type hGen struct {
	t     *rapid.T
	m     *hModel
	nn    int
	dsts  []int
	ops   []HOp
	hist  map[int][]uint64 // sequence numbers a neighbour has had
	lastD *HOp
}

func (g *hGen) emit(op HOp) {
	g.ops = append(g.ops, op)
	switch op.K {
	case "sync":
		g.m.sync(op.N, op.Seq)
		g.hist[op.N] = append(g.hist[op.N], g.m.nbrs[op.N].seq)
	case "data":
		g.m.data(op.N, op.Seq, op.Ents)
		cp := op
		g.lastD = &cp
	case "sweep":
		g.m.sweep()
	case "adv":
		g.m.now += time.Duration(op.D) * time.Millisecond
	}
}

func (g *hGen) present() []int {
	var ids []int
	for n := range g.m.nbrs {
		ids = append(ids, n)
	}
	sort.Ints(ids)
	return ids
}

func (g *hGen) face(n int) (uint64, bool) {
	f := uint64(300 + n)
	switch hPick(g.t, "face", 6, 1, 1) {
	case 1:
		f = 400
	case 2:
		f = 401
	}
	return f, hPick(g.t, "active", 2, 1) == 0
}

func (g *hGen) syncOp(n int, seq uint64) HOp {
	f, a := g.face(n)
	return HOp{K: "sync", N: n, Seq: seq, Face: f, Act: a}
}

// genSync: a sync Interest of neighbour n with a generated sequence number.
func (g *hGen) genSync(n int) HOp {
	var seq uint64
	if nb := g.m.nbrs[n]; nb != nil {
		switch hPick(g.t, "syncseq", 10, 4, 3, 3) {
		case 0:
			seq = nb.seq + 1
		case 1:
			seq = nb.seq
		case 2:
			d := uint64(hRange(g.t, "lower", 1, 3))
			if d > nb.seq {
				d = nb.seq
			}
			seq = nb.seq - d
		case 3:
			seq = nb.seq + uint64(hRange(g.t, "jump", 2, 5))
		}
	} else if h := g.hist[n]; len(h) > 0 {
		last := h[len(h)-1]
		switch hPick(g.t, "reseq", 4, 3, 2) {
		case 0:
			seq = last // comes back with what it had
		case 1:
			seq = last + uint64(hRange(g.t, "jump", 1, 3))
		case 2:
			seq = uint64(hRange(g.t, "restart", 0, int(last))) // restarted lower
		}
	} else {
		seq = []uint64{0, 1, 5, 10, 10, 20}[hUni(g.t, "firstseq", 6)]
	}
	return g.syncOp(n, seq)
}

var hCosts = []uint64{0, 1, 1, 2, 2, 3, 5, 13, 14, 15, 16, 17, 40}
var hOthers = []uint64{1, 2, 2, 3, 5, 13, 14, 15, 16, 16, 17}

func (g *hGen) genEnts(n int, nonEmpty bool) []HEnt {
	var ents []HEnt
	for _, d := range g.dsts {
		if hPick(g.t, "incl", 11, 9) == 1 {
			continue
		}
		e := HEnt{Dst: d, Cost: hCosts[hUni(g.t, "cost", len(hCosts))], Other: hOthers[hUni(g.t, "other", len(hOthers))]}
		switch hPick(g.t, "nh", 5, 3, 2) {
		case 0:
			e.Nh = n
		case 1:
			e.Nh = 0
		case 2:
			e.Nh = hRange(g.t, "nhany", 0, len(hNames)-1)
		}
		if d == n && hPick(g.t, "selfent", 3, 1) == 0 {
			e.Nh, e.Cost, e.Other = n, 0, infinity // what a router advertises for itself
		}
		ents = append(ents, e)
	}
	if nonEmpty && len(ents) == 0 {
		ents = append(ents, HEnt{Dst: g.dsts[0], Nh: n, Cost: 1, Other: infinity})
	}
	return ents
}

// genData: an advertisement Data with a generated relation to the current state.
func (g *hGen) genData() HOp {
	if g.lastD != nil && hPick(g.t, "dup", 9, 1) == 1 {
		return *g.lastD
	}
	var n int
	var gone []int
	for n := 1; n <= g.nn; n++ {
		if g.m.removed[n] && g.m.nbrs[n] == nil {
			gone = append(gone, n)
		}
	}
	if w := hPick(g.t, "who", 8, 1, 1); w == 1 {
		n = hRange(g.t, "anyone", 1, 5) // may be absent / never a neighbour (5)
	} else if w == 2 && len(gone) > 0 {
		n = gone[hRange(g.t, "gone", 0, len(gone)-1)] // swept, not seen since
	} else if p := g.present(); len(p) > 0 {
		n = p[hRange(g.t, "nbr", 0, len(p)-1)]
	} else {
		n = hRange(g.t, "nbr", 1, g.nn)
	}
	var seq uint64
	h := g.hist[n]
	if nb := g.m.nbrs[n]; nb != nil {
		switch hPick(g.t, "dataseq", 11, 6, 2, 1) {
		case 0:
			seq = nb.seq
		case 1: // an older one, arriving late
			if len(h) > 1 && hPick(g.t, "fromhist", 1, 1) == 0 {
				seq = h[hRange(g.t, "hist", 0, len(h)-1)]
			} else {
				d := uint64(hRange(g.t, "older", 1, 2))
				if d > nb.seq {
					d = nb.seq
				}
				seq = nb.seq - d
			}
		case 2:
			seq = nb.seq + 1
		case 3:
			seq = uint64(hRange(g.t, "anyseq", 0, 30))
		}
	} else if len(h) > 0 {
		seq = h[hRange(g.t, "hist", 0, len(h)-1)]
	} else {
		seq = uint64(hRange(g.t, "anyseq", 0, 12))
	}
	return HOp{K: "data", N: n, Seq: seq, Ents: g.genEnts(n, false)}
}

func (g *hGen) genAdv() HOp {
	d := g.m.dead.Milliseconds()
	ds := []int64{1, 5, 10, 20, 1000, 3000, d - 1, d, d + 1, 2 * d}
	return HOp{K: "adv", D: ds[hPick(g.t, "adv", 2, 1, 2, 1, 3, 2, 2, 2, 3, 2)]}
}

// ensure returns a neighbour that is in the table, creating one if needed.
func (g *hGen) ensure() int {
	p := g.present()
	if len(p) > 0 && hPick(g.t, "reuse", 4, 1) == 0 {
		return p[hRange(g.t, "nbr", 0, len(p)-1)]
	}
	n := hRange(g.t, "nbr", 1, g.nn)
	if g.m.nbrs[n] == nil {
		g.emit(g.genSync(n))
	}
	return n
}

func (g *hGen) quiet() {
	if hPick(g.t, "quiet", 2, 1) == 0 {
		g.emit(HOp{K: "yield"})
	} else {
		g.emit(g.genAdv())
	}
}

// keepAlive lets some of the other neighbours ping (no yield).
func (g *hGen) keepAlive(except int) {
	for _, o := range g.present() {
		if o != except && hPick(g.t, "keep", 3, 2) == 0 {
			g.emit(g.syncOp(o, g.m.nbrs[o].seq))
		}
	}
}

// macroDataThenSweep: data for a neighbour that the next sweep removes, nothing yielding
// in between.
func (g *hGen) macroDataThenSweep() {
	n := g.ensure()
	if hPick(g.t, "pre", 1, 1) == 0 {
		g.emit(HOp{K: "data", N: n, Seq: g.m.nbrs[n].seq, Ents: g.genEnts(n, true)})
		g.emit(HOp{K: "yield"})
	}
	d := g.m.dead.Milliseconds()
	g.emit(HOp{K: "adv", D: []int64{d + 1, 2 * d, d}[hPick(g.t, "age", 5, 2, 2)]})
	g.keepAlive(n)
	g.emit(HOp{K: "data", N: n, Seq: g.m.nbrs[n].seq, Ents: g.genEnts(n, true)})
	g.emit(HOp{K: "sweep"})
	if hPick(g.t, "readd", 2, 1) == 1 {
		g.emit(g.genSync(n))
	}
	g.quiet()
}

// macroTwoData: two advertisements of one neighbour with different sequence numbers, in
// both arrival orders, before or after the sync that announces the newer one.
func (g *hGen) macroTwoData() {
	n := g.ensure()
	s := g.m.nbrs[n].seq
	a := HOp{K: "data", N: n, Seq: s, Ents: g.genEnts(n, true)}
	b := HOp{K: "data", N: n, Seq: s + 1, Ents: g.genEnts(n, true)}
	raise := g.syncOp(n, s+1)
	maybeYield := func() {
		if hPick(g.t, "mid", 1, 1) == 0 {
			g.emit(HOp{K: "yield"})
		}
	}
	switch hPick(g.t, "order", 3, 2, 3) {
	case 0: // newer first, the older one arrives late
		g.emit(raise)
		g.emit(b)
		maybeYield()
		g.emit(a)
	case 1: // older one arrives after the sync, before the newer one
		g.emit(raise)
		g.emit(a)
		maybeYield()
		g.emit(b)
	case 2: // older accepted in time, newer accepted, older arrives once more
		g.emit(a)
		maybeYield()
		g.emit(raise)
		g.emit(b)
		maybeYield()
		g.emit(a)
	}
	g.quiet()
}

// macroReAdd: a neighbour dies, is swept and comes back.
func (g *hGen) macroReAdd() {
	n := g.ensure()
	if hPick(g.t, "pre", 2, 1) == 0 {
		g.emit(HOp{K: "data", N: n, Seq: g.m.nbrs[n].seq, Ents: g.genEnts(n, true)})
		if hPick(g.t, "mid", 1, 1) == 0 {
			g.emit(HOp{K: "yield"})
		}
	}
	d := g.m.dead.Milliseconds()
	g.emit(HOp{K: "adv", D: []int64{d + 1, 2 * d}[hPick(g.t, "age", 1, 1)]})
	g.keepAlive(n)
	g.emit(HOp{K: "sweep"})
	if hPick(g.t, "mid", 1, 1) == 0 {
		g.emit(HOp{K: "yield"})
	}
	g.emit(g.genSync(n))
	if hPick(g.t, "post", 2, 1) == 0 && g.m.nbrs[n] != nil {
		seq := g.m.nbrs[n].seq
		if h := g.hist[n]; hPick(g.t, "late", 2, 1) == 1 {
			seq = h[hRange(g.t, "hist", 0, len(h)-1)]
		}
		g.emit(HOp{K: "data", N: n, Seq: seq, Ents: g.genEnts(n, true)})
	}
	g.quiet()
}

// macroMulti: several neighbours advertise overlapping destinations at once (equal and
// different costs through different neighbours), nothing yielding in between.
func (g *hGen) macroMulti() {
	k := hRange(g.t, "multi", 2, g.nn)
	first := hRange(g.t, "first", 1, g.nn)
	for i := 0; i < k; i++ {
		n := (first-1+i)%g.nn + 1
		if g.m.nbrs[n] == nil || hPick(g.t, "ping", 1, 1) == 0 {
			g.emit(g.genSync(n))
		}
		ents := g.genEnts(n, true)
		for j := range ents {
			if hPick(g.t, "cheap", 3, 1) == 0 {
				ents[j].Cost = uint64(hRange(g.t, "cost", 0, 2))
				if ents[j].Nh == 0 {
					ents[j].Nh = n
				}
			}
		}
		g.emit(HOp{K: "data", N: n, Seq: g.m.nbrs[n].seq, Ents: ents})
	}
	g.quiet()
}

func genHCase(t *rapid.T) HCase {
	dead := []int64{2000, 10000, 30000}[hUni(t, "dead", 3)]
	g := &hGen{t: t, m: newHModel(dead), hist: map[int][]uint64{}}
	g.nn = hRange(t, "neighbours", 2, hMaxNbr)
	// 2..6 destinations: always the first two neighbours, then a generated subset of the rest
	g.dsts = []int{1, 2}
	nd := hRange(t, "destinations", 2, 6)
	rest := []int{5, 0, 3, 6, 4, 7}
	off := hRange(t, "destoff", 0, len(rest)-1)
	for i := 0; len(g.dsts) < nd; i++ {
		g.dsts = append(g.dsts, rest[(off+i)%len(rest)])
	}
	sort.Ints(g.dsts)
	// one step = one stimulus or one of the biased patterns; drawn as a rapid slice so that
	// the shrinker can delete whole steps
	step := rapid.Custom(func(st *rapid.T) int {
		g.t = st
		kind := hPick(st, "kind", 20, 24, 7, 11, 11, 9, 9, 7, 9) // (a Custom generator must draw something)
		if len(g.ops) >= hMaxOps {
			return 0
		}
		before := len(g.ops)
		switch kind {
		case 0:
			g.emit(g.genSync(hRange(st, "nbr", 1, g.nn)))
		case 1:
			g.emit(g.genData())
		case 2:
			g.emit(HOp{K: "sweep"})
		case 3:
			g.emit(HOp{K: "yield"})
		case 4:
			g.emit(g.genAdv())
		case 5:
			g.macroDataThenSweep()
		case 6:
			g.macroTwoData()
		case 7:
			g.macroReAdd()
		case 8:
			g.macroMulti()
		}
		return len(g.ops) - before
	})
	rapid.SliceOfN(step, hRange(t, "minsteps", 1, 10), 16).Draw(t, "steps")
	g.t = t
	return HCase{Dead: dead, Ops: g.ops}
}

// ---------------------------------------------------------------------------- fake engine

// hEngine is the ndn.Engine of the router under test: it records and never answers.
type hEngine struct {
	timer   ndn.Timer
	start   time.Time
	fetches []hFetch // advertisement fetch Interests expressed (with a callback)
	syncs   int      // sync Interests expressed (no callback)
	others  []string
	cmds    int
	attach  int
}

type hFetch struct {
	name string
	at   time.Duration
}

func (e *hEngine) EngineTrait() ndn.Engine { return e }
func (e *hEngine) Spec() ndn.Spec          { return spec.Spec{} }
func (e *hEngine) Timer() ndn.Timer        { return e.timer }
func (e *hEngine) Start() error            { return nil }
func (e *hEngine) Stop() error             { return nil }
func (e *hEngine) IsRunning() bool         { return true }

func (e *hEngine) AttachHandler(prefix enc.Name, handler ndn.InterestHandler) error {
	e.attach++
	return nil
}
func (e *hEngine) DetachHandler(prefix enc.Name) error   { return nil }
func (e *hEngine) RegisterRoute(prefix enc.Name) error   { e.cmds++; return nil }
func (e *hEngine) UnregisterRoute(prefix enc.Name) error { e.cmds++; return nil }
func (e *hEngine) ExecMgmtCmd(module string, cmd string, args any) error {
	e.cmds++
	return nil
}

func (e *hEngine) Express(interest *ndn.EncodedInterest, cb ndn.ExpressCallbackFunc) error {
	parsed, _, err := spec.Spec{}.ReadInterest(enc.NewBufferReader(interest.Wire.Join()))
	if err != nil {
		return err
	}
	name := parsed.Name()
	switch {
	case cb == nil:
		e.syncs++
	case classify(name) == "adv":
		e.fetches = append(e.fetches, hFetch{name.String(), time.Since(e.start)})
	default:
		e.others = append(e.others, name.String())
	}
	return nil // never calls back
}

// ---------------------------------------------------------------------------- stimuli

var hParsed = func() []enc.Name {
	out := make([]enc.Name, len(hNames))
	for i, s := range hNames {
		out[i] = mustName(s)
	}
	return out
}()

func hNameIdx(s string) int {
	for i, n := range hNames {
		if n == s {
			return i
		}
	}
	return -1
}

func hAdvName(n int, seq uint64) enc.Name {
	return append(config.Localhop.Clone(), append(hParsed[n].Clone(),
		enc.NewStringComponent(enc.TypeKeywordNameComponent, "DV"),
		enc.NewStringComponent(enc.TypeKeywordNameComponent, "ADV"),
		enc.NewSequenceNumComponent(seq),
	)...)
}

// hSyncArgs builds the sync Interest a neighbour sends (advertSyncSendInterestImpl) and
// decodes it again, as the engine does before it calls the handler.
func hSyncArgs(cfg *config.Config, op HOp) (ndn.InterestHandlerArgs, error) {
	prefix := cfg.AdvertisementSyncPassivePrefix()
	if op.Act {
		prefix = cfg.AdvertisementSyncActivePrefix()
	}
	name := append(prefix.Clone(), enc.NewVersionComponent(2))
	sv := &svs.StateVectorAppParam{StateVector: &svs.StateVector{Entries: []*svs.StateVectorEntry{{
		NodeId: hParsed[op.N], SeqNo: op.Seq,
	}}}}
	ei, err := spec.Spec{}.MakeInterest(name, &ndn.InterestConfig{
		MustBeFresh: true,
		Lifetime:    utils.IdPtr(1 * time.Millisecond),
		Nonce:       utils.IdPtr(uint64(0x1000 + op.N)),
		HopLimit:    utils.IdPtr(uint(2)),
	}, sv.Encode(), nil)
	if err != nil {
		return ndn.InterestHandlerArgs{}, err
	}
	in, sigCov, err := spec.Spec{}.ReadInterest(enc.NewBufferReader(ei.Wire.Join()))
	if err != nil {
		return ndn.InterestHandlerArgs{}, err
	}
	face := op.Face
	return ndn.InterestHandlerArgs{
		Interest:       in,
		Reply:          func(enc.Wire) error { return nil },
		RawInterest:    ei.Wire,
		SigCovered:     sigCov,
		Deadline:       time.Now().Add(time.Millisecond),
		IncomingFaceId: &face,
	}, nil
}

// hAdvertData builds the advertisement Data a neighbour serves (advertDataOnInterest) and
// decodes it again.
func hAdvertData(op HOp) (ndn.Data, error) {
	adv := &dvtlv.Advertisement{}
	for _, e := range op.Ents {
		adv.Entries = append(adv.Entries, &dvtlv.AdvEntry{
			Destination: &dvtlv.Destination{Name: hParsed[e.Dst]},
			NextHop:     &dvtlv.Destination{Name: hParsed[e.Nh]},
			Cost:        e.Cost,
			OtherCost:   e.Other,
		})
	}
	ed, err := spec.Spec{}.MakeData(hAdvName(op.N, op.Seq), &ndn.DataConfig{
		ContentType: utils.IdPtr(ndn.ContentTypeBlob),
		Freshness:   utils.IdPtr(10 * time.Second),
	}, adv.Encode(), security.NewSha256Signer())
	if err != nil {
		return nil, err
	}
	data, _, err := spec.Spec{}.ReadData(enc.NewBufferReader(ed.Wire.Join()))
	return data, err
}

func (op HOp) String() string {
	switch op.K {
	case "sync":
		return fmt.Sprintf("sync %s seq=%d face=%d active=%v", hNames[op.N], op.Seq, op.Face, op.Act)
	case "data":
		var es []string
		for _, e := range op.Ents {
			es = append(es, fmt.Sprintf("%s via %s cost %d other %d", hNames[e.Dst], hNames[e.Nh], e.Cost, e.Other))
		}
		return fmt.Sprintf("data %s seq=%d [%s]", hNames[op.N], op.Seq, strings.Join(es, "; "))
	case "adv":
		return fmt.Sprintf("adv %dms", op.D)
	}
	return op.K
}

// ---------------------------------------------------------------------------- judge

// hSyncInterval is the advertisement sync interval of the configuration. It is also the
// grace period of the fetch check: that long after a sequence number became current the
// fetch Interest for it must have been expressed (the router debounces for 10 ms; the
// statement gives no figure, one heart-beat is the protocol's own unit of "promptly").
const hSyncInterval = time.Second

func hValidCase(c HCase) error {
	if c.Dead < 2000 || c.Dead > 3600_000 {
		return fmt.Errorf("dead interval %d ms out of range", c.Dead)
	}
	for i, op := range c.Ops {
		switch op.K {
		case "sync", "data":
			if op.N < 1 || op.N >= len(hNames) {
				return fmt.Errorf("op %d: neighbour index %d out of range", i, op.N)
			}
			for _, e := range op.Ents {
				if e.Dst < 0 || e.Dst >= len(hNames) || e.Nh < 0 || e.Nh >= len(hNames) {
					return fmt.Errorf("op %d: name index out of range", i)
				}
				if e.Cost > 1<<32 || e.Other > 1<<32 {
					return fmt.Errorf("op %d: cost out of range", i)
				}
			}
		case "sweep", "yield":
		case "adv":
			if op.D < 0 || op.D > 4*c.Dead {
				return fmt.Errorf("op %d: adv %d ms out of range", i, op.D)
			}
		default:
			return fmt.Errorf("op %d: unknown kind %q", i, op.K)
		}
	}
	return nil
}

type hRun struct {
	c       HCase
	m       *hModel
	eng     *hEngine
	r       *dv.Router
	cfg     *config.Config
	prevAdv string // canonical content of the advertisement at the previous quiescent point
	prevSeq uint64
	points  int
}

func hSecond(costs map[int]uint64) (lo1, lo2 uint64) {
	lo1, lo2 = infinity, infinity
	var cs []uint64
	for _, c := range costs {
		cs = append(cs, c)
	}
	sort.Slice(cs, func(a, b int) bool { return cs[a] < cs[b] })
	if len(cs) > 0 {
		lo1 = cs[0]
	}
	if len(cs) > 1 {
		lo2 = cs[1]
	}
	return
}

func hFmtCosts(costs map[int]uint64) string {
	var ks []int
	for k := range costs {
		ks = append(ks, k)
	}
	sort.Ints(ks)
	var out []string
	for _, k := range ks {
		out = append(out, fmt.Sprintf("%s:%d", hNames[k], costs[k]))
	}
	return "{" + strings.Join(out, " ") + "}"
}

// judge compares the router with the reference at a quiescent point.
func (h *hRun) judge(at string) error {
	h.points++
	m := h.m
	snap := h.r.VerifSnapshot()
	fail := func(f string, a ...any) error {
		return fmt.Errorf("C18 (handlers): %s: %s", at, fmt.Sprintf(f, a...))
	}

	// 1. neighbour table
	got := map[int]bool{}
	nbs := snap.Neighbors
	sort.Slice(nbs, func(a, b int) bool { return nbs[a].Name.String() < nbs[b].Name.String() })
	for _, nb := range nbs {
		i := hNameIdx(nb.Name.String())
		ref := m.nbrs[i]
		if i < 0 || ref == nil {
			return fail("neighbour table lists %s, which the reference does not have (never seen, or removed by a sweep %v after its last sync Interest; dead interval %v)", nb.Name, time.Since(nb.LastSeen), m.dead)
		}
		got[i] = true
		if nb.AdvertSeq != ref.seq {
			return fail("neighbour %s has advertisement sequence number %d, reference %d (raised only by a sync Interest with a higher number)", nb.Name, nb.AdvertSeq, ref.seq)
		}
		if nb.HasAdvert != ref.has {
			return fail("neighbour %s: advertisement stored = %v, reference %v (an advertisement is accepted iff its sequence number is the neighbour's current one)", nb.Name, nb.HasAdvert, ref.has)
		}
	}
	for i := 1; i < len(hNames); i++ {
		if ref := m.nbrs[i]; ref != nil && !got[i] {
			return fail("neighbour %s is missing from the neighbour table (last sync Interest %v ago, dead interval %v)", hNames[i], m.now-ref.last, m.dead)
		}
	}

	// 2. RIB: finite per-neighbour costs per destination
	want := m.rib()
	have := map[int]map[int]uint64{}
	ribs := snap.Rib
	sort.Slice(ribs, func(a, b int) bool { return ribs[a].Name.String() < ribs[b].Name.String() })
	for _, e := range ribs {
		d := hNameIdx(e.Name.String())
		if d < 0 {
			return fail("RIB has destination %s, which nobody advertised", e.Name)
		}
		if d == 0 {
			// the router's own name as a destination (a neighbour advertising a path back to it):
			// the statement is about the cost to every OTHER router; whether such entries are kept
			// is free (legitimate variation C18-3 skips them)
			continue
		}
		var hops []string
		for hop := range e.Costs {
			hops = append(hops, hop)
		}
		sort.Strings(hops)
		fin := map[int]uint64{}
		for _, hop := range hops {
			c := e.Costs[hop]
			if c >= infinity {
				continue
			}
			n := hNameIdx(hop)
			if n < 0 || m.nbrs[n] == nil {
				return fail("RIB: destination %s has cost %d via %s, which is not in the neighbour table (reference: %s)", e.Name, c, hop, h.whyAbsent(n))
			}
			fin[n] = c
		}
		if len(fin) > 0 {
			have[d] = fin
		}
		// best / second-best consistent with the costs (ties may be broken either way)
		lo1, lo2 := hSecond(fin)
		if e.Lowest1 != lo1 || (lo1 < infinity && e.Lowest2 != lo2) {
			return fail("RIB: destination %s stores best/second-best cost %d/%d, its per-neighbour costs %s give %d/%d", e.Name, e.Lowest1, e.Lowest2, hFmtCosts(fin), lo1, lo2)
		}
		if lo1 < infinity {
			n1 := -1
			if e.NextHop1 != nil {
				n1 = hNameIdx(e.NextHop1.String())
			}
			if c, ok := fin[n1]; !ok || c != lo1 {
				return fail("RIB: destination %s: best next hop %v does not have the best cost %d (costs %s)", e.Name, e.NextHop1, lo1, hFmtCosts(fin))
			}
			if lo2 < infinity {
				n2 := -1
				if e.NextHop2 != nil {
					n2 = hNameIdx(e.NextHop2.String())
				}
				if c, ok := fin[n2]; !ok || c != lo2 || n2 == n1 {
					return fail("RIB: destination %s: second-best next hop %v does not have the second-best cost %d or equals the best next hop %v (costs %s)", e.Name, e.NextHop2, lo2, e.NextHop1, hFmtCosts(fin))
				}
			}
		}
	}
	for d := 1; d < len(hNames); d++ {
		w, g := want[d], have[d]
		if len(w) == 0 && len(g) == 0 {
			continue
		}
		if hFmtCosts(w) != hFmtCosts(g) {
			return fail("RIB: destination %s has costs %s, reference %s (from the accepted advertisements: cost+1 via the neighbour, poison reverse through OtherCost, nothing at or above %d)%s", hNames[d], hFmtCosts(g), hFmtCosts(w), infinity, h.explain(d))
		}
		if len(w) > 1 {
			lo1, lo2 := hSecond(w)
			if lo1 == lo2 {
				m.cls["equal-cost-tie"] = true
			} else {
				m.cls["several-neighbours-different-costs"] = true
			}
		}
	}

	// 3. the advertisement the router would serve now: exactly the reachable destinations,
	// none at or above infinity
	var canon []string
	seen := map[int]bool{}
	for _, e := range snap.Advert.Entries {
		d := hNameIdx(e.Destination.Name.String())
		if d == 0 {
			continue // the router itself: see above
		}
		if e.Cost >= infinity {
			return fail("the router's own advertisement lists destination %s at cost %d (>= infinity)", e.Destination.Name, e.Cost)
		}
		w := want[d]
		lo1, lo2 := hSecond(w)
		if d < 0 || len(w) == 0 || seen[d] {
			return fail("the router's own advertisement lists destination %s, reference has no route to it (or it is listed twice)", e.Destination.Name)
		}
		seen[d] = true
		nh := -1
		if e.NextHop != nil && e.NextHop.Name != nil {
			nh = hNameIdx(e.NextHop.Name.String())
		}
		if c, ok := w[nh]; e.Cost != lo1 || e.OtherCost != lo2 || !ok || c != lo1 {
			return fail("the router's own advertisement lists %s via %v at cost %d / other cost %d, reference costs %s", e.Destination.Name, e.NextHop.Name, e.Cost, e.OtherCost, hFmtCosts(w))
		}
		canon = append(canon, fmt.Sprintf("%d/%d/%d/%d", d, nh, e.Cost, e.OtherCost))
	}
	for d, w := range want {
		if d != 0 && len(w) > 0 && !seen[d] {
			return fail("the router's own advertisement does not list destination %s, reference costs %s", hNames[d], hFmtCosts(w))
		}
	}
	sort.Strings(canon)
	adv := strings.Join(canon, ",")
	if h.points > 1 && adv != h.prevAdv && snap.AdvertSeq <= h.prevSeq {
		return fail("the router's advertisement changed ([%s] -> [%s]) but its own sequence number did not increase (%d -> %d)", h.prevAdv, adv, h.prevSeq, snap.AdvertSeq)
	}
	if adv != h.prevAdv && h.points > 1 {
		m.cls["own-advertisement-changed"] = true
	}
	h.prevAdv, h.prevSeq = adv, snap.AdvertSeq

	// 4. advertisement fetches: only for (neighbour, sequence number) pairs that were current;
	// and the current one of every neighbour has been asked for once it is old enough
	for _, f := range h.eng.fetches {
		ok := false
		for k := range m.everCur {
			if hAdvName(k.n, k.seq).String() == f.name {
				ok = true
			}
		}
		if !ok {
			return fail("the router fetched %s, which was never the current advertisement of a neighbour", f.name)
		}
	}
	for i := 1; i < len(hNames); i++ {
		ref := m.nbrs[i]
		if ref == nil || m.now-ref.seqSince < hSyncInterval {
			continue
		}
		name, ok := hAdvName(i, ref.seq).String(), false
		for _, f := range h.eng.fetches {
			if f.name == name && f.at >= ref.seqSince {
				ok = true
			}
		}
		if !ok {
			return fail("neighbour %s announced sequence number %d %v ago, the router has not fetched %s", hNames[i], ref.seq, m.now-ref.seqSince, name)
		}
		m.cls["fetch-expressed"] = true
	}
	if len(h.eng.others) > 0 {
		return fail("unexpected Interest expressed: %s", h.eng.others[0])
	}
	return nil
}

func (h *hRun) whyAbsent(n int) string {
	if n < 0 {
		return "not a router of this case"
	}
	if h.m.removed[n] {
		return "removed by a sweep and not seen since"
	}
	return "never sent a sync Interest"
}

func (h *hRun) explain(d int) string {
	var out []string
	var ids []int
	for n := range h.m.nbrs {
		ids = append(ids, n)
	}
	sort.Ints(ids)
	for _, n := range ids {
		nb := h.m.nbrs[n]
		if !nb.has {
			continue
		}
		for _, e := range nb.adv {
			if e.Dst == d {
				out = append(out, fmt.Sprintf("%s (seq %d) says: via %s cost %d other %d", hNames[n], nb.advSeq, hNames[e.Nh], e.Cost, e.Other))
			}
		}
	}
	if len(out) == 0 {
		return "; no accepted advertisement of a current neighbour lists it"
	}
	return "; accepted: " + strings.Join(out, "; ")
}

func execHCase(t *testing.T) func(HCase) evid.Result {
	return func(c HCase) (res evid.Result) {
		if err := hValidCase(c); err != nil {
			// only a hand-written replay file can get here
			res.Err = fmt.Errorf("invalid case: %v", err)
			return
		}
		synctest.Test(t, func(*testing.T) {
			h := &hRun{c: c, m: newHModel(c.Dead)}
			h.eng = &hEngine{timer: basic.NewTimer(), start: time.Now()}
			h.cfg = &config.Config{Network: netPrefix, Router: hNames[0], AdvertisementSyncInterval_ms: uint64(hSyncInterval.Milliseconds()), RouterDeadInterval_ms: uint64(c.Dead)}
			r, err := dv.NewRouter(h.cfg, h.eng)
			if err != nil {
				panic(err)
			}
			h.r = r
			h.m.dead = h.cfg.RouterDeadInterval()
			start := time.Now()
			step := func(i int, op HOp) (err error) {
				defer func() {
					if p := recover(); p != nil {
						err = fmt.Errorf("C18 (handlers): op %d (%s): the handler panicked: %v", i, op, p)
					}
				}()
				h.m.now = time.Since(start)
				switch op.K {
				case "sync":
					args, e := hSyncArgs(h.cfg, op)
					if e != nil {
						panic(fmt.Sprintf("harness: cannot build the sync Interest: %v", e))
					}
					h.m.sync(op.N, op.Seq)
					r.VerifOnSyncInterest(args, op.Act)
				case "data":
					data, e := hAdvertData(op)
					if e != nil {
						panic(fmt.Sprintf("harness: cannot build the advertisement: %v", e))
					}
					h.m.data(op.N, op.Seq, op.Ents)
					r.VerifOnAdvertData(data)
				case "sweep":
					h.m.sweep()
					r.VerifCheckDeadNeighbors()
				case "yield", "adv":
					if op.K == "adv" {
						time.Sleep(time.Duration(op.D) * time.Millisecond)
					}
					synctest.Wait()
					h.m.now = time.Since(start)
					h.m.quiesce()
					return h.judge(fmt.Sprintf("after op %d (%s) at t=%v", i, op, h.m.now))
				}
				return nil
			}
			for i, op := range c.Ops {
				if err := step(i, op); err != nil {
					res.Err = err
					break
				}
			}
			// let everything the handlers spawned finish (debounce sleeps of 10 ms), then judge once more
			time.Sleep(2 * time.Second)
			synctest.Wait()
			if res.Err == nil {
				func() {
					defer func() {
						if p := recover(); p != nil {
							res.Err = fmt.Errorf("C18 (handlers): final judgement panicked: %v", p)
						}
					}()
					h.m.now = time.Since(start)
					h.m.quiesce()
					res.Err = h.judge(fmt.Sprintf("at the end (t=%v)", h.m.now))
				}()
			}
			if res.Err != nil {
				var lines []string
				for i, op := range c.Ops {
					lines = append(lines, fmt.Sprintf("  %2d %s", i, op))
				}
				res.Err = fmt.Errorf("%v\nhistory (router %s, dead interval %v):\n%s", res.Err, hNames[0], h.m.dead, strings.Join(lines, "\n"))
			}
			m := h.m
			res.NonTrivial = m.accepted >= 1 && (m.swept >= 1 || m.stale >= 1)
			for k := range m.cls {
				res.Classes = append(res.Classes, k)
			}
			switch n := len(c.Ops); {
			case n <= 5:
				res.Classes = append(res.Classes, "ops<=5")
			case n <= 15:
				res.Classes = append(res.Classes, "ops<=15")
			case n <= 25:
				res.Classes = append(res.Classes, "ops<=25")
			default:
				res.Classes = append(res.Classes, "ops>25")
			}
			sort.Strings(res.Classes)
			res.Counts = map[string]int{"quiescent-points-judged": h.points, "advertisements-accepted": m.accepted,
				"neighbours-swept": m.swept, "data-refused-wrong-seq": m.stale, "fetches-expressed": len(h.eng.fetches)}
		})
		return
	}
}

// singleP runs f with GOMAXPROCS(1): a goroutine spawned by a handler is then only queued,
// it runs when the harness goroutine blocks (synctest.Wait / time.Sleep).
func singleP(f func()) {
	old := runtime.GOMAXPROCS(1)
	defer runtime.GOMAXPROCS(old)
	f()
}

const ruleC18Handlers = "one real, unstarted dv.Router; generated histories of <= 28 operations: handler calls (sync Interest / advertisement Data for current, older, future sequence numbers and unknown neighbours / dead-neighbour sweep) interleaved with yields and virtual-time steps straddling the dead interval, the router's deferred goroutines held back until the harness yields; at every quiescent point neighbour table (sequence number, advertisement stored), RIB (finite per-neighbour costs, best/second-best), the advertisement it would serve and its fetches == reference model derived from SPEC.md. Non-trivial: >= 1 advertisement accepted AND (>= 1 neighbour swept OR >= 1 advertisement refused for a wrong sequence number)"

func TestC18Handlers(t *testing.T) {
	rec := evid.New("C18", "TestC18Handlers", ruleC18Handlers)
	singleP(func() { evid.Check(t, rec, genHCase, execHCase(t)) })
}

func TestC18HandlersReplay(t *testing.T) {
	singleP(func() { evid.Replay(t, "TestC18Handlers", execHCase(t)) })
}
