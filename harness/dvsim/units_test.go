package dvsim

import (
	"fmt"
	"testing"
	"time"

	"verif/harness/internal/evid"
)

// classesOf derives the class histogram entries shared by both properties.
func classesOf(c Case, res simResult) (cl []string, cycle, tie, fault bool) {
	cl = append(cl, fmt.Sprintf("n=%d", c.N))
	for _, sp := range res.points {
		if hasCycle(sp.adj, sp.up) {
			cycle = true
		}
		if hasTie(sp.adj, sp.up) {
			tie = true
		}
	}
	if cycle {
		cl = append(cl, "cycle")
	}
	if tie {
		cl = append(cl, "equal-cost-tie")
	}
	for k := range res.classes {
		cl = append(cl, k)
		if k == "fault:rmlink" || k == "fault:rmrouter" {
			fault = true
		}
	}
	if c.Sched.DropPct > 0 && res.counts["dropped-sync-act"]+res.counts["dropped-sync-psv"]+res.counts["dropped-sync-pfs"] > 0 {
		cl = append(cl, "sync-loss")
	}
	if res.counts["dropped-fetch-adv"] > 0 {
		cl = append(cl, "advertisement-fetch-lost-and-retried")
	}
	if res.counts["dropped-fetch-pfx"]+res.counts["dropped-fetch-snap"] > 0 {
		cl = append(cl, "prefix-log-fetch-lost-and-retried")
	}
	switch {
	case c.Sched.MaxDelay == 0:
		cl = append(cl, "delay=5ms-constant")
	case c.Sched.MaxDelay <= 20:
		cl = append(cl, "delay<=20ms")
	default:
		cl = append(cl, "delay>20ms")
	}
	passive := false
	for _, m := range c.Modes {
		if m != 0 {
			passive = true
		}
	}
	if passive {
		cl = append(cl, "one-sided-neighbour-config")
	}
	if res.resnap > 0 {
		cl = append(cl, "snapshot-after-gap")
	}
	if res.counts["nack-noroute"] > 0 {
		cl = append(cl, "fetch-nacked-no-route")
	}
	if res.counts["deliver-pfx"] > 0 && multiHop(res) {
		cl = append(cl, "multi-hop-prefix-fetch")
	}
	if res.drained > 0 {
		cl = append(cl, "waited-for-operation-log")
	}
	var worst time.Duration
	for _, sp := range res.points {
		if sp.settled > worst {
			worst = sp.settled
		}
	}
	switch {
	case worst <= 10*time.Second:
		cl = append(cl, "settled<=10s")
	case worst <= 40*time.Second:
		cl = append(cl, "settled<=40s")
	case worst <= 70*time.Second:
		cl = append(cl, "settled<=70s")
	case worst <= 100*time.Second:
		cl = append(cl, "settled<=100s")
	default:
		cl = append(cl, "settled>100s")
	}
	return
}

func multiHop(res simResult) bool {
	for _, sp := range res.points {
		d := allDist(sp.adj)
		for i := range d {
			for j := range d[i] {
				if d[i][j] >= 2 {
					return true
				}
			}
		}
	}
	return false
}

func multiHomed(res simResult) bool {
	for _, sp := range res.points {
		cnt := map[string]int{}
		for i, an := range sp.announce {
			if !sp.up[i] {
				continue
			}
			for p := range an {
				cnt[p]++
				if cnt[p] >= 2 {
					return true
				}
			}
		}
	}
	return false
}

// twinSched: another delivery order / delay pattern for the same case.
func twinSched(s Sched) Sched {
	t := s
	t.Seed = splitmix(s.Seed ^ 0xabcdef)
	switch {
	case s.MaxDelay == 0:
		t.MaxDelay = 35
	case s.MaxDelay <= 20:
		t.MaxDelay = 250
	default:
		t.MaxDelay = 3
	}
	return t
}

// ---------------------------------------------------------------------------- C18

const ruleC18 = "every router is a real dv.Router in a synctest bubble on a generated topology (all 30 connected graphs on 2..5 routers, random connected graphs on 6), delivery schedule (per-packet delays, loss of sync Interests inside chaos windows) and fault script (link/router removal and re-addition, in any order); judged at every settling point (2 dead intervals + K=16+(n-1) heart-beats after the last event/chaos window) against breadth-first distances: cost = hop distance, next hop on a shortest path, nothing for unreachable routers, advertisement = table; every advertisement on the wire has all costs < 16; equal topologies give equal next hops (within a run, and across a twin run under another schedule); while the topology is loop-free no router's advertisement changes more than (n-1) times per topology event (+1). Non-trivial: some settled topology has a cycle or an equal-cost tie, and >= 1 link/router loss was executed"

func execC18(t *testing.T) func(Case) evid.Result {
	return func(c Case) (r evid.Result) {
		res := runSim(t, c, c.Sched)
		cl, cycle, tie, fault := classesOf(c, res)
		r.Classes = cl
		r.NonTrivial = (cycle || tie) && fault
		r.Counts = map[string]int{"advertisements-checked": res.adverts, "settling-points": len(res.points)}
		if res.harnessErr != "" {
			r.Classes = append(r.Classes, "harness-problem")
			r.Counts["harness-problem: "+res.harnessErr] = 1
		}
		if res.bubbleErr != "" {
			r.Err = fmt.Errorf("routers do not shut down: %s", res.bubbleErr)
			return
		}
		if res.advertErr != "" {
			r.Err = fmt.Errorf("advertisement with infinite cost: %s", res.advertErr)
			return
		}
		if res.stormErr != "" {
			r.Err = fmt.Errorf("no fixed point: %s", res.stormErr)
			return
		}
		byTopo := map[string]map[string]string{}
		var tables []map[string]string
		for _, sp := range res.points {
			nh, err := judge18(c, sp)
			if err != nil {
				r.Err = err
				return
			}
			tables = append(tables, nh)
			if err := exchangeBound(c, sp); err != nil {
				r.Err = err
				return
			}
			if sp.forest {
				r.Classes = append(r.Classes, "exchange-bound-checked")
			}
			if prev, ok := byTopo[sp.topoKey]; ok {
				r.Classes = append(r.Classes, "same-topology-twice")
				if d := diffNextHops(prev, nh); d != "" {
					r.Err = fmt.Errorf("tie-break differs between two settling points with the same topology %s (second at step %d): %s", sp.topoKey, sp.step, d)
					return
				}
			} else {
				byTopo[sp.topoKey] = nh
			}
		}
		if c.Twin {
			r.Classes = append(r.Classes, "twin-run")
			res2 := runSim(t, c, twinSched(c.Sched))
			r.Counts["advertisements-checked"] += res2.adverts
			if res2.advertErr != "" {
				r.Err = fmt.Errorf("advertisement with infinite cost (twin schedule): %s", res2.advertErr)
				return
			}
			for i, sp := range res2.points {
				nh, err := judge18(c, sp)
				if err != nil {
					r.Err = fmt.Errorf("twin schedule: %v", err)
					return
				}
				if i < len(tables) {
					if d := diffNextHops(tables[i], nh); d != "" {
						r.Err = fmt.Errorf("tie-break depends on the delivery schedule (step %d, topology %s): %s", sp.step, sp.topoKey, d)
						return
					}
				}
			}
		}
		return
	}
}

// exchangeBound: the stated bound on the number of exchanges. While the topology is loop-free
// (no cycle in the union of all topologies of the step) poison reverse excludes every
// two-router bounce, so each (router, destination) entry is created or removed at most
// once per topology event: no router's advertisement changes more than (n-1) times per
// event (+1 for the first advertisement seen). Counting to infinity on a line or a star
// needs about 8 changes per router for one loss. On topologies with cycles the bound is
// the settling time itself (counting to 16 is legitimate there).
func exchangeBound(c Case, sp settlePoint) error {
	if !sp.forest {
		return nil
	}
	k := sp.topoEvs
	if k < 1 {
		k = 1
	}
	limit := (c.N-1)*k + 1
	for r, x := range sp.advChg {
		if x > limit {
			return fmt.Errorf("step %d (t=%v, loop-free topology %s): the advertisement of router %s changed %d times after %d topology event(s); with poison reverse a loop-free network needs at most (n-1) changes per event +1 = %d (count-to-infinity between neighbours?)",
				sp.step, sp.at, sp.topoKey, routerNames[r], x, sp.topoEvs, limit)
		}
	}
	return nil
}

func TestC18Converge(t *testing.T) {
	rec := evid.New("C18", "TestC18Converge", ruleC18)
	evid.Check(t, rec, genCase, execC18(t))
}

func TestC18ConvergeReplay(t *testing.T) {
	evid.Replay(t, "TestC18Converge", execC18(t))
}

func TestC18ConvergeRegress(t *testing.T) {
	evid.Regress(t, "C18", "TestC18Converge", execC18(t))
}

// ---------------------------------------------------------------------------- C19

const ruleC19 = "the C18 simulations plus application events (announce / withdraw through the real /localhost/nlsr handler, multi-homed prefixes, > 100 operations while a peer is cut off, late joiners, links coming back with new face ids); at every settling point (1) the rib register/unregister stream of each router, replayed into a route table keyed (prefix, face), equals the routes its own current tables prescribe (best + finite second-best next hop of every reachable remote router, for its /32=DV prefix and each prefix it announces, lowest cost per face, on the face the neighbour is reached on now) and (2) every peer's reconstructed prefix set of every router in its component equals what that router announces. Non-trivial: >= 1 withdrawal, face change, router restart or snapshot fetch after a gap happened after routes were installed"

func execC19(t *testing.T) func(Case) evid.Result {
	return func(c Case) (r evid.Result) {
		res := runSim(t, c, c.Sched)
		cl, _, _, _ := classesOf(c, res)
		r.Classes = cl
		if multiHomed(res) {
			r.Classes = append(r.Classes, "multi-homed-prefix")
		}
		r.NonTrivial = res.classes["withdraw"] || res.classes["face-change"] || res.classes["router-restart"] || res.resnap > 0
		ncmd := 0
		if len(res.points) > 0 {
			for _, cm := range res.points[len(res.points)-1].cmds {
				ncmd += len(referenceRoutesLog(cm))
			}
		}
		r.Counts = map[string]int{"settling-points": len(res.points), "route-commands-replayed": ncmd}
		if res.harnessErr != "" {
			r.Classes = append(r.Classes, "harness-problem")
			r.Counts["harness-problem: "+res.harnessErr] = 1
		}
		if res.bubbleErr != "" {
			r.Err = fmt.Errorf("routers do not shut down: %s", res.bubbleErr)
			return
		}
		if res.stormErr != "" {
			// the routing tables never settled (a C18 matter): there is no settling point to judge
			r.Classes = append(r.Classes, "cut-short:advertisement-storm")
		}
		for _, sp := range res.points {
			if err := judge19(c, sp); err != nil {
				r.Err = err
				return
			}
		}
		return
	}
}

// referenceRoutesLog: the commands that the C19 replay looks at.
func referenceRoutesLog(cmds []Cmd) []Cmd {
	var out []Cmd
	for _, c := range cmds {
		if c.Module == "rib" && c.Face != 0 && len(c.Name) > 0 && (len(c.Name) < 10 || c.Name[:10] != "/localhop/") {
			out = append(out, c)
		}
	}
	return out
}

func TestC19Routes(t *testing.T) {
	rec := evid.New("C19", "TestC19Routes", ruleC19)
	evid.Check(t, rec, genCase, execC19(t))
}

func TestC19RoutesReplay(t *testing.T) {
	evid.Replay(t, "TestC19Routes", execC19(t))
}

func TestC19RoutesRegress(t *testing.T) {
	evid.Regress(t, "C19", "TestC19Routes", execC19(t))
}
