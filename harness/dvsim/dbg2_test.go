package dvsim

import (
	"fmt"
	"os"
	"testing"

	"pgregory.net/rapid"
)

// TestDbgAdvChanges prints, per settling point, the largest number of advertisement changes
// of any router, split by whether the topology before and after the step is loop-free.
func TestDbgAdvChanges(t *testing.T) {
	if os.Getenv("DBG_ADV") == "" {
		t.Skip()
	}
	hist := map[string]map[int]int{}
	rapid.Check(t, func(rt *rapid.T) {
		c := genCase(rt)
		res := runSim(t, c, c.Sched)
		prevCyc := false
		for i, sp := range res.points {
			cyc := hasCycle(sp.adj, sp.up)
			mx := 0
			for _, x := range sp.advChg {
				if x > mx {
					mx = x
				}
			}
			nev := 0
			if i > 0 {
				nev = len(c.Steps[i-1].Evs)
			}
			k := fmt.Sprintf("cyc=%v prev=%v ev=%d", cyc, prevCyc, nev)
			if hist[k] == nil {
				hist[k] = map[int]int{}
			}
			hist[k][mx]++
			prevCyc = cyc
		}
	})
	for k, h := range hist {
		fmt.Println(k, h)
	}
}
