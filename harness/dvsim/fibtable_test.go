package dvsim

import (
	"fmt"
	"sync"
	"testing"
	"testing/synctest"
	"time"

	"github.com/named-data/ndnd/dv/config"
	"github.com/named-data/ndnd/dv/nfdc"
	"github.com/named-data/ndnd/dv/table"
	enc "github.com/named-data/ndnd/std/encoding"
	"github.com/named-data/ndnd/std/ndn"
	mgmt "github.com/named-data/ndnd/std/ndn/mgmt_2022"
	"pgregory.net/rapid"

	"verif/harness/internal/evid"
)

// C19, table level: the installer (table.Fib) is driven directly through the protocol its
// only caller (dv.fibUpdate) uses -- UnmarkAll; UpdateH + MarkH per prefix; RemoveUnmarked --
// with generated rounds of desired entries (duplicates per face as multi-homed prefixes
// produce, entries at infinity as a missing second-best produces). After every round the
// replayed rib register/unregister stream must equal the from-scratch route set of that
// round: per (prefix, face) the lowest finite cost.

type FibEnt struct {
	Name int    `json:"n"`
	Face uint64 `json:"f"`
	Cost uint64 `json:"c"`
}

type FibCase struct {
	Rounds [][]FibEnt `json:"rounds"`
	// Bulk > 0: round BulkAt additionally prescribes one route for each of Bulk prefixes of
	// their own (/bulk/<i>): more commands at once than the management thread's queue holds
	// (4096) -- they must all be executed (seeded defect C19-r4-1 dropped the overflow)
	Bulk   int `json:"bulk,omitempty"`
	BulkAt int `json:"bulkAt,omitempty"`
	// Fail: transient faults of the forwarder's management interface. {k, n}: the k-th command the
	// management thread executes (counting distinct commands from 0) fails n times (n <= 2, inside
	// the installer's retry budget of 3) before it succeeds. Retried commands must still take
	// effect in the order they were issued (seeded C19-r5-1 retried them later, out of order).
	Fail [][2]int `json:"fail,omitempty"`
	// Rush[i]: round i+1 follows round i at once (the table changed again before the management
	// thread got through the commands of round i); the command stream is then judged after the
	// next round that is given time
	Rush []bool `json:"rush,omitempty"`
}

var fibNames = []string{"/r1/32=DV", "/p/a", "/p/a/x", "/q"}

func genFibCase(t *rapid.T) FibCase {
	var c FibCase
	n := rapid.IntRange(1, 8).Draw(t, "rounds")
	for i := 0; i < n; i++ {
		var round []FibEnt
		k := rapid.IntRange(0, 8).Draw(t, "entries")
		for j := 0; j < k; j++ {
			e := FibEnt{
				Name: rapid.IntRange(0, len(fibNames)-1).Draw(t, "name"),
				Face: rapid.SampledFrom([]uint64{5, 6, 7}).Draw(t, "face"),
				Cost: rapid.SampledFrom([]uint64{1, 2, 2, 3, 15, 16, 17}).Draw(t, "cost"),
			}
			if rapid.IntRange(0, 7).Draw(t, "noSecond") == 0 {
				e.Face, e.Cost = 0, 16 // what GetFibEntries yields when there is no second-best
			}
			round = append(round, e)
		}
		c.Rounds = append(c.Rounds, round)
	}
	if bits := rapid.SliceOfN(rapid.Bool(), 4, 4).Draw(t, "bulkBits"); bits[0] && bits[1] && bits[2] && bits[3] {
		c.Bulk = rapid.SampledFrom([]int{300, 4095, 4096, 4097, 5000, 9000}).Draw(t, "bulk")
		c.BulkAt = rapid.IntRange(0, n-1).Draw(t, "bulkAt")
	}
	if rapid.IntRange(0, 1).Draw(t, "rushed") == 0 {
		for i := 0; i < n; i++ {
			c.Rush = append(c.Rush, rapid.IntRange(0, 2).Draw(t, "rush") != 0)
		}
	}
	if rapid.IntRange(0, 2).Draw(t, "faulty") == 0 {
		nf := rapid.IntRange(1, 4).Draw(t, "nfail")
		for i := 0; i < nf; i++ {
			c.Fail = append(c.Fail, [2]int{rapid.IntRange(0, 24).Draw(t, "failAt"), rapid.IntRange(1, 2).Draw(t, "failN")})
		}
	}
	return c
}

// cmdRecorder is an ndn.Engine of which only ExecMgmtCmd is ever called (by the management thread).
type cmdRecorder struct {
	ndn.Engine
	mu   sync.Mutex
	cmds []Cmd
	// fault plan: ordinal of a distinct command -> how often it still fails; commands are told
	// apart by the identity of their argument object (a retry passes the same object again)
	plan   map[int]int
	seen   map[*mgmt.ControlArgs]int
	failed int
}

func (r *cmdRecorder) ExecMgmtCmd(module string, cmd string, args any) error {
	a := args.(*mgmt.ControlArgs)
	if r.plan != nil {
		r.mu.Lock()
		ord, known := r.seen[a]
		if !known {
			ord = len(r.seen)
			r.seen[a] = ord
		}
		if r.plan[ord] > 0 {
			r.plan[ord]--
			r.failed++
			r.mu.Unlock()
			return fmt.Errorf("harness: transient failure of the management interface")
		}
		r.mu.Unlock()
	}
	c := Cmd{Module: module, Verb: cmd, Name: a.Name.String()}
	if a.FaceId != nil {
		c.Face = *a.FaceId
	}
	if a.Cost != nil {
		c.Cost = *a.Cost
	}
	if a.Origin != nil {
		c.Origin, c.HasOrg = *a.Origin, true
	}
	r.mu.Lock()
	r.cmds = append(r.cmds, c)
	r.mu.Unlock()
	return nil
}

func execFibCase(t *testing.T) func(FibCase) evid.Result {
	return func(c FibCase) (res evid.Result) {
		synctest.Test(t, func(*testing.T) {
			rec := &cmdRecorder{}
			nFail := 0
			if len(c.Fail) > 0 {
				rec.plan, rec.seen = map[int]int{}, map[*mgmt.ControlArgs]int{}
				for _, f := range c.Fail {
					if f[1] > rec.plan[f[0]] && f[1] <= 2 {
						rec.plan[f[0]] = f[1]
					}
				}
				for _, n := range rec.plan {
					nFail += n
				}
			}
			th := nfdc.NewNfdMgmtThread(rec)
			go th.Start()
			cfg := &config.Config{Network: netPrefix, Router: "/r0", AdvertisementSyncInterval_ms: 5000, RouterDeadInterval_ms: 30000}
			if err := cfg.Parse(); err != nil {
				panic(err)
			}
			fib := table.NewFib(cfg, th)
			names := make([]enc.Name, len(fibNames))
			for i, s := range fibNames {
				names[i] = mustName(s)
			}
			var bulkNames []enc.Name
			for i := 0; i < c.Bulk; i++ {
				bulkNames = append(bulkNames, mustName(fmt.Sprintf("/bulk/%d", i)))
			}
			prev := map[routeKey]uint64{}
			for ri, round := range c.Rounds {
				// what fibUpdate does with the desired entries of this round
				by := map[int][]table.FibEntry{}
				var order []int
				for _, e := range round {
					if _, ok := by[e.Name]; !ok {
						order = append(order, e.Name)
					}
					by[e.Name] = append(by[e.Name], table.FibEntry{FaceId: e.Face, Cost: e.Cost})
				}
				fib.UnmarkAll()
				for _, ni := range order {
					h := names[ni].Hash()
					if fib.UpdateH(h, names[ni], by[ni]) {
						fib.MarkH(h)
					}
				}
				bulk := c.Bulk > 0 && ri == c.BulkAt
				if bulk {
					for i, bn := range bulkNames {
						h := bn.Hash()
						if fib.UpdateH(h, bn, []table.FibEntry{{FaceId: 5 + uint64(i%3), Cost: 1 + uint64(i%7)}}) {
							fib.MarkH(h)
						}
					}
					res.Classes = append(res.Classes, "bulk-round")
					if c.Bulk > 4096 {
						res.Classes = append(res.Classes, "more-commands-than-the-management-queue-holds")
					}
				}
				fib.RemoveUnmarked()
				rush := ri < len(c.Rush) && c.Rush[ri] && ri != len(c.Rounds)-1
				if rush {
					synctest.Wait() // no time passes
					res.Classes = append(res.Classes, "table-changed-again-before-the-commands-were-executed")
				} else {
					time.Sleep(time.Duration(ri+1) * 50 * time.Millisecond) // (rushed rounds before this one)
				}
				// the management thread needs 1 ms per command and waits 100 ms after a failed attempt
				if !rush {
					time.Sleep(time.Second + time.Duration(2*c.Bulk)*4*time.Millisecond + time.Duration(nFail)*250*time.Millisecond)
				}
				synctest.Wait()
				// from scratch: lowest finite cost per (prefix, face)
				want := map[routeKey]uint64{}
				for _, e := range round {
					if e.Cost >= infinity {
						continue
					}
					k := routeKey{names[e.Name].String(), e.Face}
					if old, ok := want[k]; !ok || e.Cost < old {
						want[k] = e.Cost
					}
				}
				if bulk {
					for i, bn := range bulkNames {
						want[routeKey{bn.String(), 5 + uint64(i%3)}] = 1 + uint64(i%7)
					}
				}
				rec.mu.Lock()
				got := map[routeKey]uint64{}
				for _, cm := range rec.cmds {
					if cm.Module != "rib" || !cm.HasOrg || cm.Origin != 128 {
						continue
					}
					k := routeKey{cm.Name, cm.Face}
					if cm.Verb == "register" {
						got[k] = cm.Cost
					} else if cm.Verb == "unregister" {
						delete(got, k)
					}
				}
				rec.mu.Unlock()
				if d := diffRoutes(got, want); d != "" && res.Err == nil && !rush {
					res.Err = fmt.Errorf("round %d: registered routes differ from the desired set: %s\n registered: %s\n desired: %s", ri, d, fmtRoutes(got), fmtRoutes(want))
				}
				believed := map[routeKey]uint64{}
				for _, f := range fib.VerifRoutes() {
					believed[routeKey{f.Name.String(), f.FaceId}] = f.Cost
				}
				if d := diffRoutes(believed, want); d != "" && res.Err == nil {
					res.Err = fmt.Errorf("round %d: the installer's own record differs from the desired set: %s", ri, d)
				}
				// classes
				for k, c0 := range prev {
					if c1, ok := want[k]; !ok {
						res.NonTrivial = true
						res.Classes = append(res.Classes, "route-removed")
					} else if c1 != c0 {
						res.NonTrivial = true
						res.Classes = append(res.Classes, "cost-changed")
					}
				}
				seen := map[routeKey]int{}
				for _, e := range round {
					if e.Cost < infinity {
						k := routeKey{names[e.Name].String(), e.Face}
						seen[k]++
						if seen[k] == 2 {
							res.Classes = append(res.Classes, "duplicate-face")
						}
					}
				}
				prev = want
			}
			if rec.failed > 0 {
				res.Classes = append(res.Classes, "management-command-failed-transiently-and-was-retried")
			}
			th.Stop()
		})
		res.Classes = dedupe(res.Classes)
		return
	}
}

func dedupe(xs []string) []string {
	seen := map[string]bool{}
	var out []string
	for _, x := range xs {
		if !seen[x] {
			seen[x] = true
			out = append(out, x)
		}
	}
	return out
}

const ruleC19Fib = "table.Fib driven through the protocol of its only caller (UnmarkAll; UpdateH+MarkH per prefix; RemoveUnmarked) with generated rounds of desired (prefix, face, cost) entries incl. duplicate faces and entries at infinity; after every round the replayed register/unregister stream and the installer's own record must equal the lowest finite cost per (prefix, face) of that round. Non-trivial: some round removes a route or changes a cost that an earlier round installed"

func TestC19FibTable(t *testing.T) {
	rec := evid.New("C19", "TestC19FibTable", ruleC19Fib)
	evid.Check(t, rec, genFibCase, execFibCase(t))
}

func TestC19FibTableReplay(t *testing.T) {
	evid.Replay(t, "TestC19FibTable", execFibCase(t))
}
