#!/usr/bin/env python3
"""Mutation run for dvsim (C18, C19).

usage: mutants.py <scratch-worktree> [mutant-id ...]

Plants each mutant (exact-text replacement) in the scratch worktree of the repository,
runs `./check C18` and `./check C19` (quick tier, VERIF_REPO=<scratch>), reverts with
`git checkout -- .`, and prints the table  mutant -> caught by (C18 / C19 / -).
The scratch worktree must be a clean checkout of the fixed tree.
"""
import os, subprocess, sys

VERIF = os.path.dirname(os.path.dirname(os.path.dirname(os.path.abspath(__file__))))

M = [
 # id, file, old, new, description
 ("m01-no-poison-reverse", "dv/dv/table_algo.go",
  "if entry.NextHop.Name.Equal(dv.config.RouterName()) {", "if false {",
  "remove poison reverse"),
 ("m02-no-local-cost", "dv/dv/table_algo.go",
  "cost := entry.Cost + localCost", "cost := entry.Cost",
  "cost + localCost -> cost"),
 ("m03-skip-prune", "dv/dv/table_algo.go",
  "\t// Drop dead entries\n\tdirty = dv.rib.Prune() || dirty", "\t// Drop dead entries\n\tdirty = dv.rib.Prune_() || dirty",
  "skip Prune in ribUpdate (refresh only)"),
 ("m04-tiebreak-map-order", "dv/table/rib.go",
  "if cost < lowest1 || (cost == lowest1 && hop < nextHop1) {", "if cost < lowest1 {",
  "tie-break on map order (drop the hop< clause of the best)"),
 ("m05-keep-dead-neighbour-hops", "dv/dv/table_algo.go",
  "dirty = dv.rib.RemoveNextHop(ns.Name) || dirty", "dirty = true",
  "do not remove a dead neighbour's next hops"),
 ("m06-infinity-off-by-one", "dv/dv/table_algo.go",
  "if cost >= config.CostInfinity {\n\t\t\tcontinue", "if cost > config.CostInfinity {\n\t\t\tcontinue",
  "accept cost == infinity into the RIB"),
 ("m07-advert-wrong-nexthop", "dv/table/rib.go",
  "Name: r.neighbors[entry.nextHop1],", "Name: r.neighbors[entry.nextHop2],",
  "advertise the second-best next hop as next hop"),
 ("m08-never-dead", "dv/table/neighbor_table.go",
  "return time.Since(ns.lastSeen) > ns.nt.config.RouterDeadInterval()", "return false",
  "neighbours never die"),
 ("m09-no-seq-increment", "dv/dv/advert_sync.go",
  "dv.advertSyncSeq++", "",
  "advertisement changes are not announced (sequence number not incremented)"),
 ("m10-poison-no-increment", "dv/dv/table_algo.go",
  "cost = entry.OtherCost + localCost", "cost = entry.OtherCost",
  "poison reverse uses the other cost without the link cost"),
 ("m11-no-reset-per-neighbour", "dv/dv/table_algo.go",
  "dv.rib.DirtyResetNextHop(ns.Name)", "",
  "no reset-then-set per neighbour (withdrawn destinations keep their cost)"),
 ("m12-second-best-order", "dv/table/rib.go",
  "} else if cost < lowest2 || (cost == lowest2 && hop < nextHop2) {", "} else if cost < lowest2 {",
  "tie-break of the second-best on map order"),
 ("m13-skip-remove-unmarked", "dv/dv/table_algo.go",
  "dv.fib.RemoveUnmarked()", "",
  "RemoveUnmarked skipped"),
 ("m14-prevcost-inverted", "dv/table/fib.go",
  "if entry.Cost == entry.prevCost {", "if entry.Cost != entry.prevCost {",
  "prevCost compare inverted"),
 ("m15-min-to-max", "dv/table/fib.go",
  "oldEntries[oi].Cost = min(newEntry.Cost, oldEntries[oi].Cost)",
  "if oldEntries[oi].Cost >= config.CostInfinity {\n\t\t\t\t\toldEntries[oi].Cost = newEntry.Cost\n\t\t\t\t} else {\n\t\t\t\t\toldEntries[oi].Cost = max(newEntry.Cost, oldEntries[oi].Cost)\n\t\t\t\t}",
  "min -> max for duplicate faces (multi-homed prefixes)"),
 ("m16-apply-ignores-reset", "dv/table/prefix_table.go",
  "if ops.PrefixOpReset {", "if false {",
  "Apply ignores PrefixOpReset"),
 ("m17-snapshot-threshold-flipped", "dv/table/prefix_table.go",
  "if pt.snapshotAt-seq >= 100 {", "if pt.snapshotAt-seq < 100 {",
  "snapshot threshold compare flipped (publisher)"),
 ("m18-fetch-snap-flipped", "dv/dv/prefix_sync.go",
  "isSnap := router.Latest-router.Known > 100", "isSnap := router.Latest-router.Known <= 100",
  "snapshot decision flipped (fetcher)"),
 ("m19-no-second-best-route", "dv/table/fib.go",
  "\t\tCost:   ribEntry.lowest2,", "\t\tCost:   config.CostInfinity,",
  "second-best next hop not installed"),
 ("m20-face-change-not-dirty", "dv/table/neighbor_table.go",
  "ns.routeRegister(faceId)\n\t\treturn nil, true", "ns.routeRegister(faceId)\n\t\treturn nil, false",
  "face change does not trigger a FIB update"),
 ("m21-no-prefix-routes", "dv/dv/table_algo.go",
  "register(prefix.Name, fes)", "_ = prefix",
  "announced prefixes are not installed"),
 ("m22-apply-ignores-remove", "dv/table/prefix_table.go",
  "delete(router.Prefixes, remove.Name.Hash())", "",
  "Apply ignores PrefixOpRemove"),
 ("m23-no-fib-update-on-prefix-change", "dv/dv/prefix_sync.go",
  "go dv.fibUpdate()", "",
  "prefix table change does not update the FIB"),
 ("m24-register-infinite-second-best", "dv/table/fib.go",
  "if newEntry.Cost >= config.CostInfinity {\n\t\t\tcontinue\n\t\t}", "",
  "second-best at infinity is installed too"),
 ("m25-snapshot-without-reset", "dv/table/prefix_table.go",
  "PrefixOpReset: true,", "PrefixOpReset: false,",
  "snapshots do not reset"),
 ("m26-unregister-keeps-entry", "dv/table/fib.go",
  "\t\t\t\tRetries: 3,\n\t\t\t})\n\t\t} else {\n\t\t\tfinalEntries = append(finalEntries, oldEntry)\n\t\t}",
  "\t\t\t\tRetries: 3,\n\t\t\t})\n\t\t\toldEntry.Cost = oldEntry.prevCost\n\t\t\tfinalEntries = append(finalEntries, oldEntry)\n\t\t} else {\n\t\t\tfinalEntries = append(finalEntries, oldEntry)\n\t\t}",
  "an unregistered face stays in the installed-route record (never re-registered)"),
 ("m27-withdraw-not-published", "dv/table/prefix_table.go",
  "PrefixOpRemoves: []*tlv.PrefixOpRemove{{Name: name}},\n\t}\n\tpt.publishOp(op.Encode())",
  "PrefixOpRemoves: []*tlv.PrefixOpRemove{{Name: name}},\n\t}\n\t_ = op",
  "withdrawals are not published"),
 ("m28-dead-neighbour-routes-stay", "dv/dv/table_algo.go",
  "\tif dirty {\n\t\tgo func() {\n\t\t\tdv.fibUpdate()\n\t\t\tdv.advertSyncNotifyNew()\n\t\t}()\n\t}\n}\n\n// Update the FIB",
  "\tif dirty {\n\t\tgo func() {\n\t\t\tdv.advertSyncNotifyNew()\n\t\t}()\n\t}\n}\n\n// Update the FIB",
  "no FIB update after a neighbour died"),
]

EXTRA = {
 # helper needed by m03: a Prune that refreshes but never deletes
 "m03-skip-prune": ("dv/table/rib.go", "// Get all advertisement entries in the RIB.",
  "func (r *Rib) Prune_() bool {\n\tdirty := false\n\tfor _, entry := range r.entries {\n\t\tif entry.dirty {\n\t\t\tdirty = entry.refresh() || dirty\n\t\t}\n\t}\n\treturn dirty\n}\n\n// Get all advertisement entries in the RIB."),
}


def sh(cmd, **kw):
    return subprocess.run(cmd, stdout=subprocess.PIPE, stderr=subprocess.STDOUT, text=True, **kw)


def replace(wt, rel, old, new):
    p = os.path.join(wt, rel)
    s = open(p).read()
    if s.count(old) != 1:
        raise SystemExit("mutant text not found exactly once in %s: %r (%d)" % (rel, old[:50], s.count(old)))
    open(p, "w").write(s.replace(old, new))


def main():
    wt = os.path.abspath(sys.argv[1])
    only = set(sys.argv[2:])
    if sh(["git", "status", "--porcelain"], cwd=wt).stdout.strip():
        raise SystemExit("scratch worktree is not clean")
    rows = []
    rdir = os.path.join(VERIF, "replays")
    before = set(os.listdir(rdir)) if os.path.isdir(rdir) else set()
    for mid, rel, old, new, desc in M:
        if only and mid not in only:
            continue
        replace(wt, rel, old, new)
        if mid in EXTRA:
            replace(wt, *EXTRA[mid])
        b = sh(["go1.26.8", "build", "./dv/..."], cwd=wt, env=dict(os.environ, GOFLAGS="-mod=mod", GOPROXY="off", GOSUMDB="off", GOTOOLCHAIN="local"))
        caught = []
        detail = []
        if b.returncode != 0:
            caught = ["DOES-NOT-BUILD"]
            detail.append(b.stdout[-300:])
        else:
            for pid in ("C18", "C19"):
                cmd = [os.path.join(VERIF, "check"), pid, "--tier", "quick", "--seed", os.environ.get("MUT_SEED", "1")]
                if os.environ.get("MUT_ONLY"):
                    if not os.environ["MUT_ONLY"].startswith("Test" + pid):
                        continue
                    cmd += ["--only", os.environ["MUT_ONLY"]]
                r = sh(cmd, cwd=VERIF, env=dict(os.environ, VERIF_REPO=wt))
                if r.returncode == 1:
                    import re
                    units = sorted(set(re.findall(r"--- FAIL: (Test\w+)", r.stdout)))
                    caught.append(pid + ("(" + ",".join(units) + ")" if units else ""))
                    msg = [l for l in r.stdout.splitlines() if "evid.go" in l and ("step" in l or "advert" in l or "tie-break" in l)]
                    detail.append("%s: %s" % (pid, (msg[-1].strip()[:260] if msg else "?")))
                elif r.returncode != 0:
                    caught.append(pid + "?inconclusive")
                    detail.append(r.stdout[-400:])
        sh(["git", "checkout", "--", "."], cwd=wt)
        # failures of mutants are not findings: remove the replay files they produced
        for f in set(os.listdir(rdir)) - before:
            if f.startswith("C18-") or f.startswith("C19-"):  # never touch other properties' files
                os.remove(os.path.join(rdir, f))
        rows.append((mid, desc, caught))
        print("%-38s %-70s -> %s" % (mid, desc, ", ".join(caught) or "NOT CAUGHT"), flush=True)
        for d in detail:
            print("      " + d, flush=True)
    print()
    for mid, desc, caught in rows:
        print("| %s | %s | %s |" % (mid, desc, ", ".join(caught) or "not caught"))


if __name__ == "__main__":
    main()
