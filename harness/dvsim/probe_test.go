package dvsim

import (
	"fmt"
	"testing"
	"time"
)

func TestProbe(t *testing.T) {
	c := Case{N: 3, Edges: [][2]int{{0, 1}, {1, 2}}, Modes: []int{0, 0},
		Steps: []Step{{Evs: []Ev{{K: "ann", A: 0, P: 0}}}, {Evs: []Ev{{K: "rmlink", A: 1, B: 2}}}},
		Sched: Sched{Seed: 1, MaxDelay: 20}}
	t0 := time.Now()
	res := runSim(t, c, c.Sched)
	fmt.Println("wall", time.Since(t0), "harnessErr", res.harnessErr, "advertErr", res.advertErr, "adverts", res.adverts)
	fmt.Println(res.counts)
	for _, sp := range res.points {
		fmt.Println("== step", sp.step, "at", sp.at, "topo", sp.topoKey, "settled", sp.settled, "inflight", sp.inflight)
		for i, s := range sp.snaps {
			if s == nil {
				continue
			}
			for _, e := range s.Rib {
				fmt.Printf("  r%d rib %s nh1=%s l1=%d nh2=%s l2=%d costs=%v\n", i, e.Name, e.NextHop1, e.Lowest1, e.NextHop2, e.Lowest2, e.Costs)
			}
			for _, nb := range s.Neighbors {
				fmt.Printf("  r%d nbr %s face=%d act=%v\n", i, nb.Name, nb.FaceId, nb.Active)
			}
			for _, p := range s.Prefixes {
				fmt.Printf("  r%d pfx %s known=%d latest=%d %v\n", i, p.Name, p.Known, p.Latest, p.Prefixes)
			}
			for _, f := range s.Fib {
				fmt.Printf("  r%d fib %s face=%d cost=%d\n", i, f.Name, f.FaceId, f.Cost)
			}
		}
	}
	for i, cm := range res.points[len(res.points)-1].cmds {
		for _, x := range cm {
			fmt.Printf("  r%d cmd %v %s/%s %s face=%d cost=%d\n", i, x.At, x.Module, x.Verb, x.Name, x.Face, x.Cost)
		}
	}
}
