package dvsim

import (
	"fmt"
	"sort"
)

// Graph is an undirected simple graph on vertices 0..N-1.
type Graph struct {
	N     int
	Edges [][2]int
}

func allEdges(n int) [][2]int {
	var es [][2]int
	for a := 0; a < n; a++ {
		for b := a + 1; b < n; b++ {
			es = append(es, [2]int{a, b})
		}
	}
	return es
}

func permutations(n int) [][]int {
	var out [][]int
	p := make([]int, n)
	for i := range p {
		p[i] = i
	}
	var rec func(k int)
	rec = func(k int) {
		if k == n {
			out = append(out, append([]int{}, p...))
			return
		}
		for i := k; i < n; i++ {
			p[k], p[i] = p[i], p[k]
			rec(k + 1)
			p[k], p[i] = p[i], p[k]
		}
	}
	rec(0)
	return out
}

func connectedMask(n int, es [][2]int, mask uint) bool {
	adj := make([][]int, n)
	for i, e := range es {
		if mask&(1<<uint(i)) != 0 {
			adj[e[0]] = append(adj[e[0]], e[1])
			adj[e[1]] = append(adj[e[1]], e[0])
		}
	}
	d := bfs(adj, 0)
	for _, x := range d {
		if x < 0 {
			return false
		}
	}
	return true
}

// connectedGraphs enumerates every connected graph on n labelled vertices and keeps one
// representative (the smallest edge mask) of each isomorphism class.
func connectedGraphs(n int) []Graph {
	es := allEdges(n)
	idx := map[[2]int]int{}
	for i, e := range es {
		idx[e] = i
	}
	perms := permutations(n)
	seen := map[uint]bool{}
	var out []Graph
	for mask := uint(0); mask < 1<<uint(len(es)); mask++ {
		if !connectedMask(n, es, mask) {
			continue
		}
		canon := mask
		for _, p := range perms {
			var m uint
			for i, e := range es {
				if mask&(1<<uint(i)) != 0 {
					a, b := p[e[0]], p[e[1]]
					if a > b {
						a, b = b, a
					}
					m |= 1 << uint(idx[[2]int{a, b}])
				}
			}
			if m < canon {
				canon = m
			}
		}
		if seen[canon] {
			continue
		}
		seen[canon] = true
		g := Graph{N: n}
		for i, e := range es {
			if canon&(1<<uint(i)) != 0 {
				g.Edges = append(g.Edges, e)
			}
		}
		out = append(out, g)
	}
	return out
}

var smallGraphsCache []Graph

// smallGraphs: all non-isomorphic connected graphs on 2..5 vertices (1 + 2 + 6 + 21 = 30).
func smallGraphs() []Graph {
	if smallGraphsCache == nil {
		for n := 2; n <= 5; n++ {
			smallGraphsCache = append(smallGraphsCache, connectedGraphs(n)...)
		}
		if len(smallGraphsCache) != 30 {
			panic(fmt.Sprintf("graph enumeration is broken: %d connected graphs on 2..5 vertices, expected 30", len(smallGraphsCache)))
		}
	}
	return smallGraphsCache
}

// bfs returns hop distances from src (-1 = unreachable).
func bfs(adj [][]int, src int) []int {
	d := make([]int, len(adj))
	for i := range d {
		d[i] = -1
	}
	d[src] = 0
	q := []int{src}
	for len(q) > 0 {
		x := q[0]
		q = q[1:]
		for _, y := range adj[x] {
			if d[y] < 0 {
				d[y] = d[x] + 1
				q = append(q, y)
			}
		}
	}
	return d
}

func adjOf(n int, edges [][2]int) [][]int {
	adj := make([][]int, n)
	for _, e := range edges {
		adj[e[0]] = append(adj[e[0]], e[1])
		adj[e[1]] = append(adj[e[1]], e[0])
	}
	for i := range adj {
		sort.Ints(adj[i])
	}
	return adj
}

// hasCycle3: the graph (as adjacency) contains a cycle (any cycle has length >= 3 in a simple graph).
func hasCycle(adj [][]int, up []bool) bool {
	nodes, edges, comps := 0, 0, 0
	seen := make([]bool, len(adj))
	for i := range adj {
		if !up[i] {
			continue
		}
		nodes++
		edges += len(adj[i])
		if !seen[i] {
			comps++
			for j, d := range bfs(adj, i) {
				if d >= 0 {
					seen[j] = true
				}
			}
		}
	}
	return edges/2 > nodes-comps
}

// hasTie: some router has two neighbours on shortest paths to the same destination.
func hasTie(adj [][]int, up []bool) bool {
	for d := range adj {
		if !up[d] {
			continue
		}
		dist := bfs(adj, d)
		for r := range adj {
			if !up[r] || r == d || dist[r] < 0 {
				continue
			}
			k := 0
			for _, nb := range adj[r] {
				if dist[nb] == dist[r]-1 {
					k++
				}
			}
			if k >= 2 {
				return true
			}
		}
	}
	return false
}

func diameter(adj [][]int) int {
	m := 0
	for i := range adj {
		for _, d := range bfs(adj, i) {
			if d > m {
				m = d
			}
		}
	}
	return m
}
