package dvsim

import (
	"fmt"
	"os"
	"runtime"
	"sort"
	"strings"
	"testing"
	"testing/synctest"
	"time"

	"github.com/named-data/ndnd/dv/config"
	"github.com/named-data/ndnd/dv/dv"
	enc "github.com/named-data/ndnd/std/encoding"
	"github.com/named-data/ndnd/std/engine/basic"
	ndnlog "github.com/named-data/ndnd/std/log"
	"github.com/named-data/ndnd/std/ndn"
	mgmt "github.com/named-data/ndnd/std/ndn/mgmt_2022"
	spec "github.com/named-data/ndnd/std/ndn/spec_2022"
	"github.com/named-data/ndnd/std/utils"
)

// ---------------------------------------------------------------------------- case

// Ev is one event of a step.
type Ev struct {
	K    string `json:"k"`             // rmlink | addlink | rmrouter | addrouter | ann | wd | burst
	A    int    `json:"a"`             // router (or first link end)
	B    int    `json:"b,omitempty"`   // second link end
	P    int    `json:"p,omitempty"`   // index into prefixPool (ann, wd)
	Cnt  int    `json:"cnt,omitempty"` // burst: number of announce/withdraw operations
	NewF bool   `json:"nf,omitempty"`  // addlink / addrouter: the peers' faces are re-created with new ids
	Gap  int    `json:"gap,omitempty"` // ms the network runs after this event, before the next event of the step
}

// Step: a few events, then a chaos window (sync Interests may be lost), then the settling
// tail; the tables are judged at the end of the tail.
type Step struct {
	Evs   []Ev `json:"evs"`
	Chaos int  `json:"chaos,omitempty"` // seconds
}

type Case struct {
	Nested bool     `json:"nested,omitempty"` // the routers' names are prefixes of one another (namesNested)
	N      int      `json:"n"`
	Edges  [][2]int `json:"e"`
	Modes  []int    `json:"m"`              // per edge: which ends have the static active-sync route
	Late   []int    `json:"late,omitempty"` // routers that are not started at time 0
	Chaos  int      `json:"chaos,omitempty"`
	Steps  []Step   `json:"steps"`
	Sched  Sched    `json:"sched"`
	Twin   bool     `json:"twin,omitempty"` // C18: run again under another delivery schedule and compare next hops
}

var prefixPool = []string{"/p/a", "/p/b", "/p/a/x", "/q", "/r0/app"}

const (
	heartbeat    = 5 * time.Second
	deadInterval = 30 * time.Second
	maxChaos     = 20 // seconds; < deadInterval - heartbeat, so that losses never kill a live neighbour
)

// settleK is the number of heart-beats granted, on top of the two dead intervals a
// neighbour loss may need to be noticed, for the tables to reach their fixed point.
func settleK(n int) int { return 16 + (n - 1) }

func tailOf(n int) time.Duration {
	return 2*deadInterval + time.Duration(settleK(n))*heartbeat
}

// ---------------------------------------------------------------------------- running routers

func init() {
	if l, ok := ndnlog.Log.(*ndnlog.Logger); ok {
		l.Level = ndnlog.FatalLevel
		if os.Getenv("DVSIM_LOG") != "" {
			l.Level = ndnlog.InfoLevel
		}
	}
}

func (nw *network) startRouter(i int, peersNewFaces bool) error {
	n := nw.nodes[i]
	nw.mu.Lock()
	n.inst++
	n.up = true
	n.routes = map[string]map[uint64]uint64{}
	n.strategy = map[string]bool{}
	n.faces = map[uint64]*link{}
	n.nextFace = firstFace + uint64(i) // ids of different routers overlap but are not aligned
	n.cmds = nil
	n.announce = map[string]bool{}
	eng := &engine{nw: nw, n: n, inst: n.inst, running: true, timer: basic.NewTimer()}
	n.eng = eng
	// the forwarder of this router is new as well: all its faces are new
	var ks [][2]int
	for k := range nw.links {
		ks = append(ks, k)
	}
	sort.Slice(ks, func(a, b int) bool { return ks[a][0] < ks[b][0] || (ks[a][0] == ks[b][0] && ks[a][1] < ks[b][1]) })
	for _, k := range ks {
		l := nw.links[k]
		if l.a != i && l.b != i {
			continue
		}
		l.gen++
		f := nw.newFace(n, l)
		if l.a == i {
			l.faceA = f
		} else {
			l.faceB = f
		}
		nw.setStatic(n, l)
		m := nw.nodes[l.peer(i)]
		if m.up && (peersNewFaces || l.faceAt(m.id) == 0) {
			if rt := m.routes[nw.staticActRoute()]; rt != nil {
				delete(rt, l.faceAt(m.id))
			}
			g := nw.newFace(m, l)
			if l.a == m.id {
				l.faceA = g
			} else {
				l.faceB = g
			}
		}
		if m.up {
			nw.setStatic(m, l)
		}
	}
	nw.mu.Unlock()

	cfg := &config.Config{
		Network:                      netPrefix,
		Router:                       routerNames[i],
		AdvertisementSyncInterval_ms: uint64(heartbeat / time.Millisecond),
		RouterDeadInterval_ms:        uint64(deadInterval / time.Millisecond),
	}
	r, err := dv.NewRouter(cfg, eng)
	if err != nil {
		return err
	}
	n.router = r
	n.done = make(chan struct{})
	done := n.done
	go func() {
		defer close(done)
		_ = r.Start()
	}()
	synctest.Wait()
	return nil
}

// stopRouter tears a router down: first the network stops talking to it (so that none of
// its goroutines is mid-flight), then Stop().
func (nw *network) stopRouter(i int) {
	n := nw.nodes[i]
	nw.mu.Lock()
	if !n.up {
		nw.mu.Unlock()
		return
	}
	n.up = false
	n.eng.running = false
	nw.mu.Unlock()
	synctest.Wait()
	n.router.Stop()
	<-n.done
	synctest.Wait()
}

// appCommand sends one readvertise command (/localhost/nlsr/rib/register|unregister) to the
// router, the way the forwarder's readvertiser does.
func (nw *network) appCommand(i int, verb string, prefix string) {
	n := nw.nodes[i]
	pn := mustName(prefix)
	params := &mgmt.ControlParameters{Val: &mgmt.ControlArgs{Name: pn}}
	name := mustName("/localhost/nlsr/rib/" + verb)
	name = append(name, enc.NewBytesComponent(enc.TypeGenericNameComponent, params.Encode().Join()))
	app := &mgmt.ControlArgs{Name: pn, Origin: utils.IdPtr(uint64(65)), Cost: utils.IdPtr(uint64(0))}
	ei, err := spec.Spec{}.MakeInterest(name, &ndn.InterestConfig{
		MustBeFresh: true,
		Lifetime:    utils.IdPtr(time.Second),
		Nonce:       utils.ConvertNonce(n.eng.timer.Nonce()),
	}, app.Encode(), nil)
	if err != nil {
		nw.setHarnessErr("readvertise Interest: %v", err)
		return
	}
	parsed, _, err := spec.Spec{}.ReadInterest(enc.NewBufferReader(ei.Wire.Join()))
	if err != nil {
		nw.setHarnessErr("readvertise Interest does not parse: %v", err)
		return
	}
	nw.mu.Lock()
	h := n.eng.lookupHandler(parsed.Name())
	nw.mu.Unlock()
	if h == nil {
		nw.setHarnessErr("router %s has no readvertise handler", n.nameStr)
		return
	}
	status := uint64(0)
	inFace := appFace
	synctest.Wait()
	h(ndn.InterestHandlerArgs{
		Interest:       parsed,
		Deadline:       time.Now().Add(time.Second),
		IncomingFaceId: &inFace,
		Reply: func(w enc.Wire) error {
			data, _, err := spec.Spec{}.ReadData(enc.NewBufferReader(w.Join()))
			if err != nil {
				return err
			}
			res, err := mgmt.ParseControlResponse(enc.NewWireReader(data.Content()), true)
			if err == nil && res.Val != nil {
				nw.mu.Lock()
				status = res.Val.StatusCode
				nw.mu.Unlock()
			}
			return nil
		},
	})
	synctest.Wait()
	nw.mu.Lock()
	st := status
	if st == 200 {
		if verb == "register" {
			n.announce[prefix] = true
		} else {
			delete(n.announce, prefix)
		}
	}
	nw.mu.Unlock()
	if st != 200 {
		nw.setHarnessErr("readvertise %s %s at %s answered status %d", verb, prefix, n.nameStr, st)
	}
}

func (nw *network) stormy() bool {
	nw.mu.Lock()
	defer nw.mu.Unlock()
	return nw.storm != ""
}

func (nw *network) setHarnessErr(f string, a ...any) {
	nw.mu.Lock()
	if nw.harnessErr == "" {
		nw.harnessErr = fmt.Sprintf(f, a...)
	}
	nw.mu.Unlock()
}

// ---------------------------------------------------------------------------- one simulation

// settlePoint is what was observed at the end of one settling tail.
type settlePoint struct {
	step     int
	at       time.Duration
	topoKey  string
	up       []bool
	adj      [][]int
	snaps    []*dv.VerifSnapshot // per router, nil if down
	cmds     [][]Cmd             // per router: management commands of the current instance
	faces    []map[int]uint64    // per router: neighbour index -> current face id of that link end
	announce []map[string]bool   // ground truth per router
	settled  time.Duration       // time from the last event of the step to the last observed change
	advChg   []int               // per router: advertisement changes seen on the wire during this step
	forest   bool                // no cycle in the union of all topologies that existed during this step
	topoEvs  int                 // link/router events of this step
	inflight int
}

type simResult struct {
	points     []settlePoint
	advertErr  string
	harnessErr string
	counts     map[string]int
	adverts    int
	resnap     int
	bubbleErr  string // the bubble could not end: goroutines of the routers blocked for ever
	stormErr   string // advertisements never stopped changing; the run was cut short
	classes    map[string]bool
	ops        int           // prefix operations issued so far
	drained    time.Duration // extra settling time spent waiting for operation logs to be fetched
}

type simModel struct {
	linkUp   map[[2]int]bool
	routerUp []bool
}

func (c Case) modeOf(a, b int) int {
	for i, e := range c.Edges {
		if lkey(e[0], e[1]) == lkey(a, b) {
			if i < len(c.Modes) {
				return c.Modes[i]
			}
			return 0
		}
	}
	return 0
}

// runSim executes the case once (inside a bubble) under the given schedule.
func runSim(t *testing.T, c Case, sched Sched) (res simResult) {
	res.classes = map[string]bool{}
	routerNames = namesFlat
	if c.Nested {
		routerNames = namesNested
		res.classes["router-names-that-are-prefixes-of-one-another"] = true
	}
	defer func() {
		// synctest panics when the bubble cannot end (goroutines blocked for ever)
		if r := recover(); r != nil {
			buf := make([]byte, 4<<20)
			buf = buf[:runtime.Stack(buf, true)]
			var blocked []string
			for _, g := range strings.Split(string(buf), "\n\n") {
				if strings.Contains(g, "synctest bubble") && !strings.Contains(g, "runSim") {
					blocked = append(blocked, g)
				}
			}
			res.bubbleErr = fmt.Sprintf("%v; goroutines left in the bubble:\n%s", r, strings.Join(blocked, "\n\n"))
			if len(res.bubbleErr) > 6000 {
				res.bubbleErr = res.bubbleErr[:6000]
			}
		}
	}()
	synctest.Test(t, func(*testing.T) {
		nw := newNetwork(c.N, sched)
		late := map[int]bool{}
		for _, x := range c.Late {
			late[x] = true
		}
		for i, e := range c.Edges {
			mode := 0
			if i < len(c.Modes) {
				mode = c.Modes[i]
			}
			nw.addLink(e[0], e[1], mode, true)
		}
		for i := 0; i < c.N; i++ {
			if late[i] {
				continue
			}
			if err := nw.startRouter(i, false); err != nil {
				nw.setHarnessErr("router %d does not start: %v", i, err)
			}
		}
		// time 0 is a multiple of every ticker period; move off the grid
		nw.runFor(137 * time.Millisecond)
		lastEvent := nw.since()
		settle := func(step int, chaos int) {
			if chaos > maxChaos {
				chaos = maxChaos
			}
			if chaos > 0 {
				nw.mu.Lock()
				nw.chaos = true
				nw.mu.Unlock()
				nw.runFor(time.Duration(chaos) * time.Second)
				nw.mu.Lock()
				nw.chaos = false
				nw.mu.Unlock()
			}
			nw.runFor(tailOf(c.N))
			// Prefix operations are fetched one at a time, one round trip each: a router that is
			// still working through a long operation log (or has a fetch in flight) gets the
			// time that needs -- bounded by the number of operations issued so far times the
			// longest round trip -- before the tables are judged.
			rtt := time.Duration(2*(c.N-1)*(sched.MaxDelay+5)+20) * time.Millisecond
			drain := 10*time.Second + time.Duration(res.ops)*rtt
			for spent := time.Duration(0); spent < drain && (nw.inFlight() > 0 || nw.behind()); spent += 500 * time.Millisecond {
				nw.runFor(500 * time.Millisecond)
				res.drained += 500 * time.Millisecond
			}
			if nw.stormy() {
				return
			}
			res.points = append(res.points, nw.observe(step, lastEvent))
		}
		union := map[[2]int]bool{}
		addUnion := func() {
			for a, nb := range nw.adjacency() {
				for _, b := range nb {
					union[lkey(a, b)] = true
				}
			}
		}
		finish := func(topoEvs int) {
			var es [][2]int
			for e := range union {
				es = append(es, e)
			}
			all := make([]bool, c.N)
			for i := range all {
				all[i] = true
			}
			if nw.stormy() {
				return
			}
			sp := &res.points[len(res.points)-1]
			sp.forest = !hasCycle(adjOf(c.N, es), all)
			sp.topoEvs = topoEvs
			union = map[[2]int]bool{}
			addUnion()
		}
		addUnion()
		settle(0, c.Chaos)
		finish(0)
		for si, st := range c.Steps {
			if nw.stormy() {
				break
			}
			topoEvs := 0
			for _, ev := range st.Evs {
				nw.apply(c, ev, &res)
				if ev.K == "rmlink" || ev.K == "addlink" || ev.K == "rmrouter" || ev.K == "addrouter" {
					topoEvs++
				}
				addUnion()
				if ev.Gap > 0 {
					nw.runFor(time.Duration(ev.Gap) * time.Millisecond)
				}
			}
			lastEvent = nw.since()
			settle(si+1, st.Chaos)
			finish(topoEvs)
		}
		// teardown: every router must stop, every goroutine must end
		for i := range nw.nodes {
			nw.stopRouter(i)
		}
		// Goroutines of a stopped router may still sit in a retry back-off (at most 2 s, then
		// a 10 ms debounce; their next Express fails and they end). Virtual time stops when
		// this function returns, so give them that time here.
		time.Sleep(5 * time.Second)
		synctest.Wait()
		nw.mu.Lock()
		res.advertErr = nw.advertViolation
		res.harnessErr = nw.harnessErr
		res.stormErr = nw.storm
		res.counts = nw.counts
		res.adverts = nw.adverts
		res.resnap = nw.resnap
		nw.mu.Unlock()
	})
	return
}

func (nw *network) apply(c Case, ev Ev, res *simResult) {
	switch ev.K {
	case "rmlink":
		if nw.linkUp(ev.A, ev.B) {
			res.classes["fault:rmlink"] = true
		}
		nw.removeLink(ev.A, ev.B)
	case "addlink":
		nw.addLink(ev.A, ev.B, c.modeOf(ev.A, ev.B), ev.NewF)
		res.classes["addlink"] = true
		if ev.NewF {
			res.classes["face-change"] = true
		}
	case "rmrouter":
		if nw.nodes[ev.A].up {
			res.classes["fault:rmrouter"] = true
		}
		nw.stopRouter(ev.A)
	case "addrouter":
		if !nw.nodes[ev.A].up {
			if nw.nodes[ev.A].inst == 0 {
				res.classes["late-join"] = true
			} else {
				res.classes["router-restart"] = true
			}
			if err := nw.startRouter(ev.A, ev.NewF); err != nil {
				nw.setHarnessErr("router %d does not start: %v", ev.A, err)
			}
		}
	case "ann":
		if nw.nodes[ev.A].up {
			nw.appCommand(ev.A, "register", prefixPool[ev.P%len(prefixPool)])
			res.classes["announce"] = true
			res.ops++
		}
	case "wd":
		if nw.nodes[ev.A].up {
			p := prefixPool[ev.P%len(prefixPool)]
			if nw.nodes[ev.A].announce[p] {
				res.classes["withdraw"] = true
			}
			nw.appCommand(ev.A, "unregister", p)
			res.ops++
		}
	case "bulk":
		// the router's applications announce Cnt prefixes of their own: a big prefix table
		if nw.nodes[ev.A].up {
			res.classes["bulk-announcement"] = true
			for j := 0; j < ev.Cnt; j++ {
				nw.appCommand(ev.A, "register", fmt.Sprintf("/bulk/r%d/p%d", ev.A, j))
				res.ops++
				nw.runFor(2 * time.Millisecond)
			}
		}
	case "burst":
		if nw.nodes[ev.A].up {
			res.classes["burst"] = true
			// alternate announcements and withdrawals over three prefixes
			for j := 0; j < ev.Cnt; j++ {
				p := prefixPool[j%3]
				if nw.nodes[ev.A].announce[p] {
					nw.appCommand(ev.A, "unregister", p)
				} else {
					nw.appCommand(ev.A, "register", p)
				}
				res.ops++
				nw.runFor(2 * time.Millisecond)
			}
		}
	}
}

// behind: some router knows (from the sync group) of prefix operations of a router in its
// RIB that it has not fetched yet. Only used to decide how long to keep waiting (bounded).
func (nw *network) behind() bool {
	synctest.Wait()
	for _, n := range nw.nodes {
		if !n.up {
			continue
		}
		s := n.router.VerifSnapshot()
		inRib := map[string]bool{}
		for _, e := range s.Rib {
			inRib[e.Name.String()] = true
		}
		for _, p := range s.Prefixes {
			if inRib[p.Name.String()] && p.Known < p.Latest {
				return true
			}
		}
	}
	return false
}

func (nw *network) observe(step int, lastEvent time.Duration) settlePoint {
	synctest.Wait()
	sp := settlePoint{step: step, at: nw.since(), inflight: nw.inFlight()}
	sp.adj = nw.adjacency()
	nw.mu.Lock()
	var topo []string
	for _, n := range nw.nodes {
		sp.up = append(sp.up, n.up)
		if n.up {
			topo = append(topo, fmt.Sprintf("r%d", n.id))
		}
		sp.cmds = append(sp.cmds, append([]Cmd{}, n.cmds...))
		an := map[string]bool{}
		for p := range n.announce {
			an[p] = true
		}
		sp.announce = append(sp.announce, an)
		fm := map[int]uint64{}
		for _, l := range nw.links {
			if l.up && (l.a == n.id || l.b == n.id) {
				fm[l.peer(n.id)] = l.faceAt(n.id)
			}
		}
		sp.faces = append(sp.faces, fm)
	}
	for a, nb := range sp.adj {
		for _, b := range nb {
			if a < b {
				topo = append(topo, fmt.Sprintf("%d-%d", a, b))
			}
		}
	}
	sp.topoKey = strings.Join(topo, ",")
	sp.settled = nw.lastChange - lastEvent
	for i := range nw.nodes {
		sp.advChg = append(sp.advChg, nw.advChanges[i])
	}
	nw.advChanges = map[int]int{}
	nw.advServed = map[int]int{}
	nw.mu.Unlock()
	for _, n := range nw.nodes {
		if !n.up {
			sp.snaps = append(sp.snaps, nil)
			continue
		}
		s := n.router.VerifSnapshot()
		sp.snaps = append(sp.snaps, &s)
	}
	return sp
}
