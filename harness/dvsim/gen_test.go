package dvsim

import (
	"sort"

	"pgregory.net/rapid"

	"verif/harness/internal/evid"
)

// genModel is the reference state the generator keeps so that events refer to live state.
type genModel struct {
	n        int
	edges    [][2]int
	linkUp   map[[2]int]bool
	routerUp []bool
	ann      []map[int]bool
}

func (m *genModel) upLinks() (out [][2]int) {
	for _, e := range m.edges {
		if m.linkUp[lkey(e[0], e[1])] {
			out = append(out, e)
		}
	}
	return
}

func (m *genModel) downLinks() (out [][2]int) {
	for _, e := range m.edges {
		if !m.linkUp[lkey(e[0], e[1])] {
			out = append(out, e)
		}
	}
	return
}

func (m *genModel) routers(up bool) (out []int) {
	for i, u := range m.routerUp {
		if u == up {
			out = append(out, i)
		}
	}
	return
}

var gapChoices = []int{0, 0, 40, 700, 4000, 11000}

func genGraph(t *rapid.T) Graph {
	gs := smallGraphs()
	// sizes 2..5 from the enumeration (offsets 0,1,3,9), 6 random
	switch rapid.SampledFrom([]int{2, 3, 3, 4, 4, 4, 5, 5, 5, 5, 6, 6}).Draw(t, "n") {
	case 2:
		return gs[0]
	case 3:
		return gs[1+rapid.IntRange(0, 1).Draw(t, "g3")]
	case 4:
		return gs[3+rapid.IntRange(0, 5).Draw(t, "g4")]
	case 5:
		return gs[9+rapid.IntRange(0, 20).Draw(t, "g5")]
	}
	// random connected graph on 6: a random spanning tree plus extra edges
	g := Graph{N: 6}
	has := map[[2]int]bool{}
	for i := 1; i < 6; i++ {
		p := rapid.IntRange(0, i-1).Draw(t, "parent")
		g.Edges = append(g.Edges, [2]int{p, i})
		has[[2]int{p, i}] = true
	}
	extra := rapid.IntRange(0, 4).Draw(t, "extra")
	for k := 0; k < extra; k++ {
		a := rapid.IntRange(0, 4).Draw(t, "xa")
		b := rapid.IntRange(a+1, 5).Draw(t, "xb")
		if !has[[2]int{a, b}] {
			has[[2]int{a, b}] = true
			g.Edges = append(g.Edges, [2]int{a, b})
		}
	}
	sort.Slice(g.Edges, func(i, j int) bool {
		return g.Edges[i][0] < g.Edges[j][0] || (g.Edges[i][0] == g.Edges[j][0] && g.Edges[i][1] < g.Edges[j][1])
	})
	return g
}

func genCase(t *rapid.T) Case {
	g := genGraph(t)
	c := Case{N: g.N, Edges: g.Edges}
	c.Nested = rapid.IntRange(0, 4).Draw(t, "nestedNames") == 0
	for range g.Edges {
		c.Modes = append(c.Modes, rapid.SampledFrom([]int{0, 0, 0, 1, 2}).Draw(t, "mode"))
	}
	m := &genModel{n: g.N, edges: g.Edges, linkUp: map[[2]int]bool{}, routerUp: make([]bool, g.N)}
	for _, e := range g.Edges {
		m.linkUp[lkey(e[0], e[1])] = true
	}
	for i := range m.routerUp {
		m.routerUp[i] = true
		m.ann = append(m.ann, map[int]bool{})
	}
	if g.N >= 3 && rapid.IntRange(0, 4).Draw(t, "late") == 0 {
		x := rapid.IntRange(0, g.N-1).Draw(t, "lateRouter")
		c.Late = []int{x}
		m.routerUp[x] = false
	}
	c.Sched = Sched{
		Seed:      rapid.Uint64().Draw(t, "seed"),
		MaxDelay:  rapid.SampledFrom([]int{0, 2, 20, 150, 600}).Draw(t, "maxDelay"),
		DropPct:   rapid.SampledFrom([]int{0, 0, 30, 60}).Draw(t, "drop"),
		FetchDrop: rapid.SampledFrom([]int{0, 0, 0, 25, 50}).Draw(t, "fetchDrop"),
	}
	c.Chaos = rapid.SampledFrom([]int{0, 0, 10, maxChaos}).Draw(t, "chaos0")
	c.Twin = rapid.IntRange(0, 3).Draw(t, "twin") == 0

	maxSteps := 3
	if evid.Thorough() {
		maxSteps = 5
	}
	nsteps := rapid.IntRange(1, maxSteps).Draw(t, "steps")
	// (five virtual hours of heart-beats cost seconds of real time: drawn in the thorough tier only; every
	// quick run contains one fixed case of this kind, regress/C18/veteran-restart.json)
	if evid.Thorough() && rapid.IntRange(0, 29).Draw(t, "veteran") == 0 {
		// one case in a hundred and fifty (thorough: thirty): the network has been up for hours (sequence numbers start at the boot
		// time in milliseconds and grow with every advertisement) when a router restarts faster than the
		// dead interval, with one link fewer than before: its neighbours must take up the new
		// incarnation's advertisements (seeded C18-r9-2 ignored sequence numbers that jump by more than
		// 2^24, i.e. a restart after more than 4.7 hours of uptime)
		ups := m.routers(true)
		r := rapid.SampledFrom(ups).Draw(t, "veteranRouter")
		st := Step{Chaos: 0}
		st.Evs = append(st.Evs, Ev{K: "idle", Gap: rapid.SampledFrom([]int{16_800_000, 16_800_000, 17_500_000}).Draw(t, "uptimeMs")})
		var mine [][2]int
		for _, e := range m.upLinks() {
			if e[0] == r || e[1] == r {
				mine = append(mine, e)
			}
		}
		st.Evs = append(st.Evs, Ev{K: "rmrouter", A: r, Gap: rapid.SampledFrom([]int{300, 2000, 9000, 20000}).Draw(t, "downFor")})
		m.routerUp[r] = false
		m.ann[r] = map[int]bool{}
		if len(mine) >= 2 {
			e := rapid.SampledFrom(mine).Draw(t, "veteranLink")
			st.Evs = append(st.Evs, Ev{K: "rmlink", A: e[0], B: e[1]})
			m.linkUp[lkey(e[0], e[1])] = false
		}
		st.Evs = append(st.Evs, Ev{K: "addrouter", A: r})
		m.routerUp[r] = true
		c.Steps = append(c.Steps, st)
	}
	for len(c.Steps) < nsteps {
		kind := rapid.SampledFrom([]string{"fault", "fault", "app", "mixed", "mixed", "partition", "flap", "multihome"}).Draw(t, "stepKind")
		chaos := rapid.SampledFrom([]int{0, 0, 8, maxChaos}).Draw(t, "chaos")
		switch kind {
		case "fault":
			st := Step{Chaos: chaos}
			for k := rapid.IntRange(1, 2).Draw(t, "nfaults"); k > 0; k-- {
				st.Evs = append(st.Evs, genFault(t, m))
			}
			c.Steps = append(c.Steps, st)
		case "app":
			st := Step{Chaos: chaos}
			for k := rapid.IntRange(1, 3).Draw(t, "napp"); k > 0; k-- {
				st.Evs = append(st.Evs, genApp(t, m))
			}
			c.Steps = append(c.Steps, st)
		case "mixed":
			st := Step{Chaos: chaos}
			for k := rapid.IntRange(2, 4).Draw(t, "nmixed"); k > 0; k-- {
				if rapid.Bool().Draw(t, "isFault") {
					st.Evs = append(st.Evs, genFault(t, m))
				} else {
					st.Evs = append(st.Evs, genApp(t, m))
				}
			}
			c.Steps = append(c.Steps, st)
		case "multihome":
			// two prefixes with two exit routers each, one exit router in common: what a router installs
			// for one multi-homed prefix must not leak into the other (seeded C19-r8-1 shared one
			// next-hop slice between the prefixes of the common exit router)
			ups := m.routers(true)
			if len(ups) < 3 {
				continue
			}
			rs := rapid.Permutation(ups).Draw(t, "exitRouters")[:3]
			ps := rapid.Permutation([]int{0, 1, 2, 3, 4}).Draw(t, "mhPrefixes")[:2]
			st := Step{Chaos: chaos}
			for _, a := range [][2]int{{rs[0], ps[0]}, {rs[1], ps[0]}, {rs[0], ps[1]}, {rs[2], ps[1]}} {
				m.ann[a[0]][a[1]] = true
				st.Evs = append(st.Evs, Ev{K: "ann", A: a[0], P: a[1], Gap: rapid.SampledFrom([]int{0, 0, 40, 700}).Draw(t, "mhGap")})
			}
			c.Steps = append(c.Steps, st)
		case "flap":
			// a link goes silent for about one dead interval -- long enough for the neighbour to
			// count as dead, possibly not long enough for the next heart-beat to have removed
			// it -- something else changes in that window, and the link comes back on the same
			// faces (seeded defect C19-r3-3 lives exactly there)
			ups := m.upLinks()
			if len(ups) == 0 {
				continue
			}
			e := rapid.SampledFrom(ups).Draw(t, "flapLink")
			silent := 100 * rapid.IntRange(285, 360).Draw(t, "silentFor")
			st := Step{Chaos: 0}
			st.Evs = append(st.Evs, Ev{K: "rmlink", A: e[0], B: e[1], Gap: silent})
			m.linkUp[lkey(e[0], e[1])] = false
			switch rapid.IntRange(0, 2).Draw(t, "midEvent") {
			case 0:
				ev := genApp(t, m)
				ev.Gap = rapid.SampledFrom([]int{0, 40, 300, 900}).Draw(t, "midGap")
				st.Evs = append(st.Evs, ev)
			case 1:
				ev := genFault(t, m)
				ev.Gap = rapid.SampledFrom([]int{0, 40, 300, 900}).Draw(t, "midGap")
				st.Evs = append(st.Evs, ev)
			}
			if !m.linkUp[lkey(e[0], e[1])] {
				st.Evs = append(st.Evs, Ev{K: "addlink", A: e[0], B: e[1], NewF: rapid.IntRange(0, 3).Draw(t, "flapNewFace") == 0})
				m.linkUp[lkey(e[0], e[1])] = true
			}
			c.Steps = append(c.Steps, st)
		case "partition":
			// a peer is cut off, another router performs > 100 prefix operations, the peer re-joins
			ups := m.routers(true)
			if len(ups) < 2 {
				continue
			}
			peer := rapid.SampledFrom(ups).Draw(t, "peer")
			var cut [][2]int
			for _, e := range m.upLinks() {
				if e[0] == peer || e[1] == peer {
					cut = append(cut, e)
				}
			}
			var others []int
			for _, x := range ups {
				if x != peer {
					others = append(others, x)
				}
			}
			if len(cut) == 0 {
				continue
			}
			x := rapid.SampledFrom(others).Draw(t, "bursting")
			var s1, s3 Step
			for _, e := range cut {
				s1.Evs = append(s1.Evs, Ev{K: "rmlink", A: e[0], B: e[1]})
				m.linkUp[lkey(e[0], e[1])] = false
			}
			cnt := rapid.SampledFrom([]int{40, 99, 100, 101, 102, 103, 120}).Draw(t, "burstCnt")
			// now and then the bursting router has a big prefix table of its own (hundreds of prefixes) and
			// the burst is longer: how often a router publishes a snapshot of its table may depend on the
			// table's size, while its peers decide by a fixed lag whether to ask for one (seeded C19-r9-2:
			// a snapshot interval of half the table size, so that a peer more than 100 operations behind is
			// handed a snapshot that is itself more than 100 operations old, again and again)
			// (hundreds of prefixes cost seconds: drawn in the thorough tier only; every quick run contains one
			// fixed case of this kind, regress/C19/big-table-partition.json)
			if evid.Thorough() && rapid.IntRange(0, 5).Draw(t, "bigTable") == 0 {
				c.Steps = append(c.Steps, Step{Evs: []Ev{{K: "bulk", A: x, Cnt: rapid.SampledFrom([]int{230, 350}).Draw(t, "bulkCnt")}}})
				cnt = rapid.SampledFrom([]int{104, 130, 150}).Draw(t, "bigBurstCnt")
			}
			s2 := Step{Evs: []Ev{{K: "burst", A: x, Cnt: cnt}}}
			for j := 0; j < cnt; j++ {
				m.ann[x][j%3] = !m.ann[x][j%3]
			}
			nf := rapid.Bool().Draw(t, "newFaces")
			for _, e := range cut {
				s3.Evs = append(s3.Evs, Ev{K: "addlink", A: e[0], B: e[1], NewF: nf})
				m.linkUp[lkey(e[0], e[1])] = true
			}
			// the bursting router keeps publishing while the peer catches up: a snapshot the peer
			// fetched may be older than the newest sequence number it has heard of by the time it
			// is processed (seeded C19-r5-2 skipped the operations in between)
			if rapid.IntRange(0, 2).Draw(t, "publishWhileCatchingUp") != 0 {
				// (the peer starts fetching when the next sync Interest of the heart-beat reaches it)
				s3.Evs[len(s3.Evs)-1].Gap = rapid.SampledFrom([]int{0, 700, 2500, 4900, 5000, 5100, 5500, 6000, 10100}).Draw(t, "rejoinGap")
				for k := rapid.IntRange(1, 3).Draw(t, "nLate"); k > 0; k-- {
					p := rapid.IntRange(0, len(prefixPool)-1).Draw(t, "latePrefix")
					gap := rapid.SampledFrom([]int{0, 5, 40, 120, 300, 700}).Draw(t, "lateGap")
					if m.ann[x][p] {
						delete(m.ann[x], p)
						s3.Evs = append(s3.Evs, Ev{K: "wd", A: x, P: p, Gap: gap})
					} else {
						m.ann[x][p] = true
						s3.Evs = append(s3.Evs, Ev{K: "ann", A: x, P: p, Gap: gap})
					}
				}
			}
			s3.Chaos = chaos
			c.Steps = append(c.Steps, s1, s2, s3)
		}
	}
	if rapid.Bool().Draw(t, "restore") {
		// bring everything back: the topology of time 0 (tie-breaks must come out the same)
		var st Step
		for _, r := range m.routers(false) {
			st.Evs = append(st.Evs, Ev{K: "addrouter", A: r, NewF: rapid.Bool().Draw(t, "nf")})
			m.routerUp[r] = true
		}
		for _, e := range m.downLinks() {
			st.Evs = append(st.Evs, Ev{K: "addlink", A: e[0], B: e[1], NewF: rapid.Bool().Draw(t, "nf")})
			m.linkUp[lkey(e[0], e[1])] = true
		}
		if len(st.Evs) > 0 {
			c.Steps = append(c.Steps, st)
		}
	}
	return c
}

func genFault(t *rapid.T, m *genModel) Ev {
	gap := rapid.SampledFrom(gapChoices).Draw(t, "gap")
	var opts []string
	if len(m.upLinks()) > 0 {
		opts = append(opts, "rmlink", "rmlink")
	}
	if len(m.downLinks()) > 0 {
		opts = append(opts, "addlink", "addlink")
	}
	if len(m.routers(true)) > 2 {
		opts = append(opts, "rmrouter")
	}
	if len(m.routers(false)) > 0 {
		opts = append(opts, "addrouter", "addrouter")
	}
	switch rapid.SampledFrom(opts).Draw(t, "fault") {
	case "rmlink":
		e := rapid.SampledFrom(m.upLinks()).Draw(t, "link")
		m.linkUp[lkey(e[0], e[1])] = false
		return Ev{K: "rmlink", A: e[0], B: e[1], Gap: gap}
	case "addlink":
		e := rapid.SampledFrom(m.downLinks()).Draw(t, "link")
		m.linkUp[lkey(e[0], e[1])] = true
		return Ev{K: "addlink", A: e[0], B: e[1], NewF: rapid.Bool().Draw(t, "nf"), Gap: gap}
	case "rmrouter":
		r := rapid.SampledFrom(m.routers(true)).Draw(t, "router")
		m.routerUp[r] = false
		m.ann[r] = map[int]bool{}
		return Ev{K: "rmrouter", A: r, Gap: gap}
	default:
		r := rapid.SampledFrom(m.routers(false)).Draw(t, "router")
		m.routerUp[r] = true
		m.ann[r] = map[int]bool{}
		return Ev{K: "addrouter", A: r, NewF: rapid.Bool().Draw(t, "nf"), Gap: gap}
	}
}

func genApp(t *rapid.T, m *genModel) Ev {
	gap := rapid.SampledFrom(gapChoices).Draw(t, "gap")
	r := rapid.SampledFrom(m.routers(true)).Draw(t, "appRouter")
	var annd []int
	for p := range prefixPool {
		if m.ann[r][p] {
			annd = append(annd, p)
		}
	}
	// withdraw something that is announced half of the time; sometimes something that is not
	if len(annd) > 0 && rapid.IntRange(0, 1).Draw(t, "wd") == 0 {
		p := rapid.SampledFrom(annd).Draw(t, "wdPrefix")
		delete(m.ann[r], p)
		return Ev{K: "wd", A: r, P: p, Gap: gap}
	}
	if rapid.IntRange(0, 9).Draw(t, "wdAbsent") == 0 {
		p := rapid.IntRange(0, len(prefixPool)-1).Draw(t, "prefix")
		delete(m.ann[r], p)
		return Ev{K: "wd", A: r, P: p, Gap: gap}
	}
	if rapid.IntRange(0, 7).Draw(t, "burst") == 0 {
		// a run of operations around the snapshot threshold (100): what a late joiner or a
		// cut-off peer finds when it (re-)joins
		cnt := rapid.SampledFrom([]int{5, 40, 99, 100, 101, 102, 130, 230}).Draw(t, "burstCnt")
		for j := 0; j < cnt; j++ {
			m.ann[r][j%3] = !m.ann[r][j%3]
		}
		return Ev{K: "burst", A: r, Cnt: cnt, Gap: gap}
	}
	p := rapid.IntRange(0, len(prefixPool)-1).Draw(t, "prefix")
	m.ann[r][p] = true
	return Ev{K: "ann", A: r, P: p, Gap: gap}
}
