package dvsim

import (
	"fmt"
	"os"
	"strconv"
	"testing"

	"verif/harness/internal/evid"
)

// The sweep: every connected graph on 2..5 routers (all 30 isomorphism classes) x six fault
// scripts x S delivery schedules. Exhaustive over the graphs, sampled over schedules and
// over the choice of the failing element.

const nScripts = 6

func pick(h *uint64, n int) int {
	*h = splitmix(*h)
	if n <= 0 {
		return 0
	}
	return int(*h % uint64(n))
}

func sweepCase(g Graph, script int, h uint64) Case {
	c := Case{N: g.N, Edges: g.Edges}
	for range g.Edges {
		c.Modes = append(c.Modes, []int{0, 0, 0, 1, 2}[pick(&h, 5)])
	}
	c.Sched = Sched{Seed: splitmix(h), MaxDelay: []int{0, 2, 20, 150, 600}[pick(&h, 5)], DropPct: []int{0, 30, 60}[pick(&h, 3)]}
	c.Chaos = []int{0, 10, maxChaos}[pick(&h, 3)]
	chaos := func() int { return []int{0, 0, 8, maxChaos}[pick(&h, 4)] }
	gap := func() int { return gapChoices[pick(&h, len(gapChoices))] }
	nf := func() bool { return pick(&h, 2) == 1 }
	edge := func() [2]int { return g.Edges[pick(&h, len(g.Edges))] }
	other := func(x int) int {
		y := pick(&h, g.N-1)
		if y >= x {
			y++
		}
		return y
	}
	if g.N == 2 && (script == 1 || script == 5) {
		script = 0
	}
	switch script {
	case 0: // one link fails and comes back
		e := edge()
		c.Steps = []Step{
			{Evs: []Ev{{K: "rmlink", A: e[0], B: e[1]}}, Chaos: chaos()},
			{Evs: []Ev{{K: "addlink", A: e[0], B: e[1], NewF: nf()}}, Chaos: chaos()},
		}
		c.Twin = true
	case 1: // one router fails and comes back
		r := pick(&h, g.N)
		c.Steps = []Step{
			{Evs: []Ev{{K: "rmrouter", A: r}}, Chaos: chaos()},
			{Evs: []Ev{{K: "addrouter", A: r, NewF: nf()}}, Chaos: chaos()},
		}
	case 2: // two faults shortly after one another, then everything comes back
		e1, e2 := edge(), edge()
		s1 := Step{Evs: []Ev{{K: "rmlink", A: e1[0], B: e1[1], Gap: gap()}}, Chaos: chaos()}
		s2 := Step{Chaos: chaos()}
		if g.N > 2 && pick(&h, 2) == 0 {
			r := pick(&h, g.N)
			s1.Evs = append(s1.Evs, Ev{K: "rmrouter", A: r})
			s2.Evs = append(s2.Evs, Ev{K: "addrouter", A: r, NewF: nf(), Gap: gap()})
		} else if e2 != e1 {
			s1.Evs = append(s1.Evs, Ev{K: "rmlink", A: e2[0], B: e2[1]})
			s2.Evs = append(s2.Evs, Ev{K: "addlink", A: e2[0], B: e2[1], NewF: nf(), Gap: gap()})
		}
		s2.Evs = append(s2.Evs, Ev{K: "addlink", A: e1[0], B: e1[1], NewF: nf()})
		c.Steps = []Step{s1, s2}
		c.Twin = true
	case 3: // a multi-homed prefix, a link loss, a withdrawal, the link returns with new faces
		a := pick(&h, g.N)
		b := other(a)
		p := pick(&h, len(prefixPool))
		e := edge()
		c.Steps = []Step{
			{Evs: []Ev{{K: "ann", A: a, P: p, Gap: gap()}, {K: "ann", A: b, P: p}, {K: "ann", A: b, P: (p + 1) % len(prefixPool)}}},
			{Evs: []Ev{{K: "rmlink", A: e[0], B: e[1]}}, Chaos: chaos()},
			{Evs: []Ev{{K: "wd", A: a, P: p}}},
			{Evs: []Ev{{K: "addlink", A: e[0], B: e[1], NewF: true}}, Chaos: chaos()},
		}
	case 4: // a peer is cut off while another router performs > 100 prefix operations
		peer := pick(&h, g.N)
		x := other(peer)
		var s1, s3 Step
		f := nf()
		for _, e := range g.Edges {
			if e[0] == peer || e[1] == peer {
				s1.Evs = append(s1.Evs, Ev{K: "rmlink", A: e[0], B: e[1]})
				s3.Evs = append(s3.Evs, Ev{K: "addlink", A: e[0], B: e[1], NewF: f})
			}
		}
		s3.Chaos = chaos()
		c.Steps = []Step{
			{Evs: []Ev{{K: "ann", A: x, P: 3}, {K: "ann", A: peer, P: 4}}},
			s1,
			{Evs: []Ev{{K: "burst", A: x, Cnt: 101 + pick(&h, 20)}}},
			s3,
		}
	case 5: // a router restarts while the others keep announcing
		r := pick(&h, g.N)
		s := other(r)
		c.Steps = []Step{
			{Evs: []Ev{{K: "ann", A: r, P: 0}, {K: "ann", A: s, P: 1, Gap: gap()}, {K: "ann", A: r, P: 2}}},
			{Evs: []Ev{{K: "rmrouter", A: r, Gap: gap()}, {K: "ann", A: s, P: 3}}, Chaos: chaos()},
			{Evs: []Ev{{K: "addrouter", A: r, NewF: nf(), Gap: gap()}, {K: "ann", A: r, P: 1}}, Chaos: chaos()},
			{Evs: []Ev{{K: "wd", A: s, P: 1}}},
		}
	}
	return c
}

func sweepCases() []Case {
	seed := uint64(1)
	if s, err := strconv.ParseUint(os.Getenv("VERIF_SEED"), 10, 64); err == nil {
		seed = s / 1000 // the driver passes base*1000+shard; every shard enumerates the same list
	}
	shard, shards := 0, 1
	if s, err := strconv.Atoi(os.Getenv("VERIF_SHARD")); err == nil {
		shard = s
	}
	if s, err := strconv.Atoi(os.Getenv("VERIF_SHARDS")); err == nil && s > 0 {
		shards = s
	}
	schedules := 1
	if evid.Thorough() {
		schedules = 50
	}
	if s, err := strconv.Atoi(os.Getenv("DVSIM_SCHEDULES")); err == nil && s > 0 {
		schedules = s
	}
	var out []Case
	k := 0
	for gi, g := range smallGraphs() {
		for sc := 0; sc < nScripts; sc++ {
			if !evid.Thorough() && os.Getenv("DVSIM_SCHEDULES") == "" && sc != (gi+int(seed))%nScripts {
				continue // quick tier: every graph once, the script rotates with the graph
			}
			for j := 0; j < schedules; j++ {
				k++
				if k%shards != shard {
					continue
				}
				h := splitmix(seed*1000003 + uint64(gi)<<24 + uint64(sc)<<16 + uint64(j))
				out = append(out, sweepCase(g, sc, h))
			}
		}
	}
	return out
}

func sweepRule(base string) string {
	return "finite sweep: all 30 non-isomorphic connected graphs on 2..5 routers x 6 fault scripts (link flap, router restart, double fault, multi-homed prefix + link loss + withdrawal, cut-off peer + >100 prefix operations, restart while others announce) x S delivery schedules (quick: one script and one schedule per graph; thorough: 6 x 50) -- exhaustive over the graphs, sampled over schedules and over which element fails. " + base
}

func TestC18Sweep(t *testing.T) {
	rec := evid.New("C18", "TestC18Sweep", sweepRule(ruleC18))
	cases := sweepCases()
	rec.Note(fmt.Sprintf("sweep: %d cases in this shard; all 30 connected graphs on 2..5 routers are covered (exhaustive over graphs, sampled over schedules)", len(cases)))
	evid.Each(t, rec, cases, execC18(t))
}

func TestC18SweepReplay(t *testing.T) {
	evid.Replay(t, "TestC18Sweep", execC18(t))
}

func TestC19Sweep(t *testing.T) {
	rec := evid.New("C19", "TestC19Sweep", sweepRule(ruleC19))
	cases := sweepCases()
	rec.Note(fmt.Sprintf("sweep: %d cases in this shard; all 30 connected graphs on 2..5 routers are covered (exhaustive over graphs, sampled over schedules)", len(cases)))
	evid.Each(t, rec, cases, execC19(t))
}

func TestC19SweepReplay(t *testing.T) {
	evid.Replay(t, "TestC19Sweep", execC19(t))
}
