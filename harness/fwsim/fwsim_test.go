package fwsim

import (
	"fmt"
	"os"
	"strings"
	"testing"

	"verif/harness/internal/evid"
)

// One executor, five units: each unit biases the generator towards its property, reports only
// the violations of its own property's statement (the oracle tags every failure), and states
// its own non-triviality rule. A case in which a *different* property is violated first is
// counted ("aborted-by-other-property") and not reported by this unit: that property's own
// unit reports it.

type ntRule func(s Stats) (bool, []string)

func execFor(t *testing.T, prop string, nt ntRule) func(Case) evid.Result {
	return execWith(t, prop, nt, Execute)
}

func execFullFor(t *testing.T, prop string, nt ntRule) func(Case) evid.Result {
	return execWith(t, prop, nt, ExecuteFull)
}

func execWith(t *testing.T, prop string, nt ntRule, run func(*testing.T, Case) Outcome) func(Case) evid.Result {
	return func(c Case) (res evid.Result) {
		out := run(t, c)
		if out.V != nil {
			if out.V.Prop == prop || os.Getenv("VERIF_ANYPROP") == "1" {
				res.Err = fmt.Errorf("%s (at op #%d, +%dms)", out.V.Msg, out.AtOp, out.Model.Now()/ms)
				return res
			}
			res.Classes = append(res.Classes, "aborted-by-other-property-"+out.V.Prop)
			return res
		}
		if strings.HasPrefix(out.Tainted, "known finding") {
			res.Classes = append(res.Classes, "excluded: "+out.Tainted)
		} else if out.Tainted != "" {
			res.Classes = append(res.Classes, "stopped-at-ambiguity: "+out.Tainted)
		}
		if c.Cfg.Threads > 1 {
			res.Classes = append(res.Classes, fmt.Sprintf("threads-%d", c.Cfg.Threads))
		}
		frag := map[string]bool{}
		for _, op := range c.Ops {
			if op.Split > 1 && c.Cfg.Threads > 0 && !frag[op.K] {
				frag[op.K] = true
				res.Classes = append(res.Classes, "arrival-as-ndnlp-fragments:"+op.K)
			}
		}
		var cl []string
		res.NonTrivial, cl = nt(out.Model.St)
		res.Classes = append(res.Classes, cl...)
		return res
	}
}

func classes(s Stats) []string {
	var cl []string
	add := func(b bool, n string) {
		if b {
			cl = append(cl, n)
		}
	}
	add(s.DataDelivered > 0, "data-delivered")
	add(s.MultiMatch > 0, "multi-match")
	add(s.TokenEcho > 0, "token-echo")
	add(s.DupData > 0, "duplicate-or-late-data")
	add(s.Unsolicited > 0, "unsolicited-data")
	add(s.Forwarded > 0, "forwarded")
	add(s.RetxForwarded > 0, "retransmission-forwarded")
	add(s.NotFwdLoop > 0, "not-forwarded-loop")
	add(s.NotFwdDead > 0, "not-forwarded-dead-nonce")
	add(s.NotFwdHop > 0, "not-forwarded-hoplimit0")
	add(s.NotFwdSuppressed > 0, "not-forwarded-suppressed")
	add(s.NotFwdNoNonce > 0, "not-forwarded-no-nonce")
	add(s.FibChanges > 0, "fib-change")
	add(s.CsHits > 0, "cache-hit")
	add(s.Expired > 0, "pit-expiry")
	add(s.Satisfied > 0, "satisfied")
	add(s.HintUsed > 0, "forwarding-hint")
	add(s.ReusedSatisfied > 0, "interest-for-entry-satisfied-moments-ago")
	add(s.NextHopUsed > 0, "next-hop-face-id")
	add(s.LocalhostNonLocalCandidate > 0, "localhost-nonlocal-candidate")
	add(s.LocalhostLocalExchange > 0, "localhost-local-exchange")
	add(s.LocalhostInboundRejected > 0, "localhost-inbound-from-nonlocal")
	add(s.AllowedArrivalCopy > 0, "arrival-face-is-downstream")
	add(s.LapsedAllowed > 0, "lapsed-or-uncertain-in-record-at-data")
	add(s.MangledToken > 0, "data-with-own-token-whose-thread-field-is-out-of-range")
	add(s.FaceDown > 0, "face-removed")
	add(s.FaceUp > 0, "face-added")
	add(s.FaceDown > 0 && s.FaceUp > 0, "face-removed-and-another-added")
	add(s.VanishedArrival > 0, "arrival-face-vanished-while-packet-queued")
	add(s.DataForGoneFace > 0, "data-for-in-record-of-removed-face")
	add(s.HopViaGoneFace > 0, "next-hop-is-a-removed-face")
	return cl
}

func ntC01(s Stats) (bool, []string) {
	return s.DataDelivered > 0 && (s.MultiMatch > 0 || s.TokenEcho > 0 || s.DupData > 0 || s.Unsolicited > 0), classes(s)
}

func ntC02(s Stats) (bool, []string) {
	notFwd := s.NotFwdLoop + s.NotFwdDead + s.NotFwdHop + s.NotFwdSuppressed
	return s.Forwarded > 0 && notFwd > 0 && s.FibChanges > 0, classes(s)
}

func ntC09(s Stats) (bool, []string) {
	return s.LocalhostNonLocalCandidate > 0 && s.LocalhostLocalExchange > 0, classes(s)
}

func ntC08(s Stats) (bool, []string) {
	return s.Expired > 0 && s.Satisfied > 0 && s.CsHits > 0, classes(s)
}

func ntC07(s Stats) (bool, []string) {
	return s.CsHits > 0 && s.Forwarded > 0, classes(s)
}

const domain = "histories (<=40 ops + initial routes) of Interest/Data arrivals, virtual-time advances aimed 1ns before/at/after suppression, lifetime and staleness edges, FIB/strategy/capacity changes, over 2..6 recording fake faces (local/non-local, point-to-point/multi-access/ad-hoc), name-tree or hash-table FIB, cache on/off, against one real fw.Thread.Run() in a synctest bubble; every emission is judged by a reference model. "

func TestC01Delivery(t *testing.T) {
	rec := evid.New("C01", "TestC01Delivery", domain+"Non-trivial: >=1 Data delivered to >=1 face AND >=1 of {multi-match, token echo, duplicate Data, unsolicited Data}; distinct by case hash")
	evid.Check(t, rec, genCaseFor(ProfC01), execFor(t, "C01", ntC01))
}
func TestC01DeliveryReplay(t *testing.T) { evid.Replay(t, "TestC01Delivery", execFor(t, "C01", ntC01)) }
func TestC01DeliveryRegress(t *testing.T) {
	evid.Regress(t, "C01", "TestC01Delivery", execFor(t, "C01", ntC01))
}

func TestC02Forwarding(t *testing.T) {
	rec := evid.New("C02", "TestC02Forwarding", domain+"Non-trivial: >=1 forwarded Interest AND >=1 Interest that must not be forwarded (loop / dead nonce / hop limit 0 / suppression) AND >=1 FIB or strategy change; distinct by case hash")
	evid.Check(t, rec, genCaseFor(ProfC02), execFor(t, "C02", ntC02))
}
func TestC02ForwardingReplay(t *testing.T) {
	evid.Replay(t, "TestC02Forwarding", execFor(t, "C02", ntC02))
}
func TestC02ForwardingRegress(t *testing.T) {
	evid.Regress(t, "C02", "TestC02Forwarding", execFor(t, "C02", ntC02))
}

func TestC09Scope(t *testing.T) {
	rec := evid.New("C09", "TestC09Scope", domain+"75% of names under /localhost or look-alikes. Non-trivial: a /localhost packet had a non-local candidate (next hop, in-record or consumer-chosen face) AND a local->local /localhost exchange completed; distinct by case hash")
	evid.Check(t, rec, genCaseFor(ProfC09), execFor(t, "C09", ntC09))
}
func TestC09ScopeReplay(t *testing.T) { evid.Replay(t, "TestC09Scope", execFor(t, "C09", ntC09)) }
func TestC09ScopeRegress(t *testing.T) {
	evid.Regress(t, "C09", "TestC09Scope", execFor(t, "C09", ntC09))
}

func TestC08Traffic(t *testing.T) {
	rec := evid.New("C08", "TestC08Traffic", domain+"Short lifetimes, tiny caches; PIT size bounded after every op, and after a quiescent period longer than every lifetime plus the dead-nonce lifetime the PIT, token map, expiry queue and dead nonce list must be empty and the name tree hold only paths to live cache entries. Non-trivial: >=1 expiry, >=1 satisfaction and >=1 cache hit; distinct by case hash")
	evid.Check(t, rec, genCaseFor(ProfC08), execFor(t, "C08", ntC08))
}
func TestC08TrafficReplay(t *testing.T) { evid.Replay(t, "TestC08Traffic", execFor(t, "C08", ntC08)) }
func TestC08TrafficRegress(t *testing.T) {
	evid.Regress(t, "C08", "TestC08Traffic", execFor(t, "C08", ntC08))
}

func TestC07EndToEnd(t *testing.T) {
	rec := evid.New("C07", "TestC07EndToEnd", domain+"Cache always on. A cache answer must be a matching, fresh-enough, byte-identical previously received Data sent to the requester alone with no upstream Interest; an exact-name first Interest for definitely cached fresh Data must be answered. Non-trivial: >=1 cache hit and >=1 forwarded Interest; distinct by case hash")
	evid.Check(t, rec, genCaseFor(ProfC07), execFor(t, "C07", ntC07))
}
func TestC07EndToEndReplay(t *testing.T) {
	evid.Replay(t, "TestC07EndToEnd", execFor(t, "C07", ntC07))
}
func TestC07EndToEndRegress(t *testing.T) {
	evid.Regress(t, "C07", "TestC07EndToEnd", execFor(t, "C07", ntC07))
}

// ---------------------------------------------------------------------------- full stack units

// full: the same profile for the full-stack executor. Names under /localhost, /localhop and their
// look-alikes are more frequent there: which forwarding thread a packet is given to depends on its
// name, and those prefixes are where dispatch rules make exceptions (seeded C01-r9-2 pinned /localhop
// Interests to one thread and went on dispatching their token-less Data by name hash).
func full(p Profile) Profile {
	p.Full = true
	p.Name += "Full"
	if p.Localhost < 25 {
		p.Localhost = 25
	}
	return p
}

const fullDomain = "the same histories and reference model, but through the full stack: packets enter and leave as NDNLPv2 frames through real link services over in-memory transports, are dispatched by the link service to 1..4 real forwarding threads (name hash / PIT-token thread id) and observed as link-layer frames (independent LpPacket parser). "

func TestC01Full(t *testing.T) {
	rec := evid.New("C01", "TestC01Full", fullDomain+"Non-trivial as TestC01Delivery")
	evid.Check(t, rec, genCaseFor(full(ProfC01)), execFullFor(t, "C01", ntC01))
}
func TestC01FullReplay(t *testing.T) { evid.Replay(t, "TestC01Full", execFullFor(t, "C01", ntC01)) }
func TestC01FullRegress(t *testing.T) {
	evid.Regress(t, "C01", "TestC01Full", execFullFor(t, "C01", ntC01))
}

func TestC02Full(t *testing.T) {
	rec := evid.New("C02", "TestC02Full", fullDomain+"Non-trivial as TestC02Forwarding")
	evid.Check(t, rec, genCaseFor(full(ProfC02)), execFullFor(t, "C02", ntC02))
}
func TestC02FullReplay(t *testing.T) { evid.Replay(t, "TestC02Full", execFullFor(t, "C02", ntC02)) }
func TestC02FullRegress(t *testing.T) {
	evid.Regress(t, "C02", "TestC02Full", execFullFor(t, "C02", ntC02))
}

func TestC09Full(t *testing.T) {
	rec := evid.New("C09", "TestC09Full", fullDomain+"Non-trivial as TestC09Scope")
	evid.Check(t, rec, genCaseFor(full(ProfC09)), execFullFor(t, "C09", ntC09))
}
func TestC09FullReplay(t *testing.T) { evid.Replay(t, "TestC09Full", execFullFor(t, "C09", ntC09)) }
func TestC09FullRegress(t *testing.T) {
	evid.Regress(t, "C09", "TestC09Full", execFullFor(t, "C09", ntC09))
}
