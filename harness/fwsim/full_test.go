package fwsim

import (
	"encoding/hex"
	"fmt"
	"testing"
	"testing/synctest"
	"time"

	"github.com/named-data/ndnd/fw/core"
	"github.com/named-data/ndnd/fw/defn"
	"github.com/named-data/ndnd/fw/dispatch"
	"github.com/named-data/ndnd/fw/face"
	"github.com/named-data/ndnd/fw/fw"
	"github.com/named-data/ndnd/fw/table"
	enc "github.com/named-data/ndnd/std/encoding"
	spec "github.com/named-data/ndnd/std/ndn/spec_2022"

	"verif/harness/internal/evid"
	"verif/harness/internal/lpwire"
)

// Full-stack executor: the same histories and the same reference model, but the packets
// enter and leave through real NDNLPv2 link services over in-memory transports, are
// dispatched by the link service to 1..4 real forwarding threads (name hash / PIT-token
// thread id), and are observed as link-layer frames. This covers what the thread-level
// executor leaves out: dispatch of Interests and Data to threads, PIT tokens on the wire,
// the link service's own /localhost-independent plumbing.

const knownPrefixDispatch = "multi-thread-tokenless-data-prefix-dispatch"

type fullFace struct {
	tr *face.VerifTransport
	ls *face.NDNLPLinkService
}

func linkOf(l int) defn.LinkType {
	switch l {
	case 1:
		return defn.MultiAccess
	case 2:
		return defn.AdHoc
	}
	return defn.PointToPoint
}

func runFull(c Case) (out Outcome) {
	nth := c.Cfg.Threads
	if nth < 1 {
		nth = 1
	}
	cfg := core.DefaultConfig()
	cfg.Fw.Threads = nth
	cfg.Tables.ContentStore.Capacity = uint16(c.Cfg.CsCap)
	cfg.Tables.ContentStore.Admit = c.Cfg.CsAdmit
	cfg.Tables.ContentStore.Serve = c.Cfg.CsServe
	cfg.Tables.DeadNonceList.Lifetime = int(c.Cfg.DnlMs)
	cfg.Tables.NetworkRegion.Regions = append([]string{}, c.Cfg.Regions...)
	cfg.Tables.Fib.Algorithm = c.Cfg.Algo
	cfg.Tables.Fib.Hashtable.M = uint16(c.Cfg.M)
	cfg.Faces.CongestionMarking = false
	core.LoadConfig(cfg, "")
	core.ShouldQuit = false
	face.Configure()
	fw.Configure()
	table.VerifReset()
	table.Configure()
	face.VerifResetFaceTable()
	table.CreateFIBTable(c.Cfg.Algo)

	fw.Threads = make([]*fw.Thread, nth)
	var disp []dispatch.FWThread
	for i := 0; i < nth; i++ {
		th := fw.NewThread(i)
		fw.Threads[i] = th
		disp = append(disp, th)
		go th.Run()
	}
	dispatch.InitializeFWThreads(disp)
	threads := fw.Threads

	faces := make([]*fullFace, len(c.Cfg.Faces))
	// face numbers of the case -> the ids the real face table gave out (equal on the unchanged
	// tree; the harness does not depend on that)
	var realID []uint64
	rid := func(idx int) uint64 {
		if idx >= 1 && idx <= len(realID) {
			return realID[idx-1]
		}
		return uint64(idx) + 1000 // a face that never existed
	}
	mkFace := func(i int, fs FaceSpec) *fullFace {
		scope := defn.NonLocal
		remote, local := fmt.Sprintf("udp4://10.0.0.%d:6363", i+2), "udp4://10.0.0.1:6363"
		if fs.Local {
			scope = defn.Local
			remote, local = fmt.Sprintf("fd://%d", 20+i), "unix:///run/nfd/nfd.sock"
		}
		tr := face.VerifMakeTransport(defn.DecodeURIString(remote), defn.DecodeURIString(local), face.PersistencyPersistent, scope, linkOf(fs.Link), defn.MaxNDNPacketSize)
		opt := face.MakeNDNLPLinkServiceOptions()
		opt.IsFragmentationEnabled = false
		opt.IsConsumerControlledForwardingEnabled = true
		ls := face.MakeNDNLPLinkService(tr, opt)
		ls.Run(nil)
		realID = append(realID, ls.FaceID())
		return &fullFace{tr: tr, ls: ls}
	}
	for i, fs := range c.Cfg.Faces {
		faces[i] = mkFace(i, fs)
	}
	synctest.Wait()
	defer func() {
		synctest.Wait()
		core.ShouldQuit = true
		for _, f := range faces { // (a local variable of the closure: includes faces added later)
			f.tr.Close()
			synctest.Wait()
		}
		for _, th := range threads {
			th.TellToQuit()
		}
		for _, th := range threads {
			<-th.HasQuit
		}
		synctest.Wait()
		core.ShouldQuit = false
	}()

	m := NewModel(c.Cfg)
	out.Model = m
	out.AtOp = -1
	fail := func(i int, v *Violation) Outcome {
		out.V, out.AtOp = v, i
		return out
	}
	collect := func() ([]Emission, *Violation) {
		var em []Emission
		for i, f := range faces {
			for _, fr := range f.tr.VerifTakeFrames() {
				lp, err := lpwire.ParseFrame(fr)
				if err != nil {
					return nil, viol("C10", "face %d emitted a frame that is not a well-formed LpPacket: %v", i+1, err)
				}
				e := Emission{Face: i + 1, Bytes: lp.Fragment, Tok: lp.PitToken}
				p, _, perr := spec.ReadPacket(enc.NewBufferReader(append([]byte{}, lp.Fragment...)))
				switch {
				case perr != nil:
					return nil, viol("C10", "face %d emitted a frame whose fragment is not a packet: %v", i+1, perr)
				case p.Interest != nil:
					e.Kind = 'I'
				case p.Data != nil:
					e.Kind = 'D'
					e.Name = p.Data.NameV.String()
				default:
					e.Kind = '?'
				}
				em = append(em, e)
			}
		}
		return em, nil
	}
	// inject hands a packet to a face as the link would: bare, as one LpPacket, or -- split
	// > 1 -- as that many NDNLPv2 fragments in order, each carrying the header fields (as
	// this forwarder's own sender does), which the link service reassembles first.
	seqs := make([]uint64, len(faces))
	inject := func(faceID int, wire []byte, tok []byte, nextHop int, split int) {
		lp := lpwire.LP{Fragment: wire, HasFragment: true}
		if len(tok) > 0 {
			lp.PitToken = tok
		}
		if nextHop != 0 {
			lp.NextHopFaceId = lpwire.U64(rid(nextHop))
		}
		if split > 1 && len(wire) >= split {
			base := seqs[faceID-1]
			seqs[faceID-1] += uint64(split)
			step := len(wire) / split
			for k := 0; k < split; k++ {
				part := wire[k*step:]
				if k < split-1 {
					part = part[:step]
				}
				f := lp
				f.Fragment = append([]byte{}, part...)
				f.Seq, f.FragIndex, f.FragCount = lpwire.U64(base+uint64(k)), lpwire.U64(uint64(k)), lpwire.U64(uint64(split))
				faces[faceID-1].ls.VerifHandleIncomingFrame(f.Encode())
			}
			return
		}
		frame := wire
		if len(tok) > 0 || nextHop != 0 {
			frame = lp.Encode()
		}
		faces[faceID-1].ls.VerifHandleIncomingFrame(frame)
	}
	pitTotal := func() int {
		n := 0
		for _, th := range threads {
			n += th.GetNumPitEntries()
		}
		return n
	}

	nonces := 0
	var lowV *Violation
	lowAt := 0
	for i, op := range c.Ops {
		if m.tainted != "" {
			break
		}
		switch op.K {
		case "adv":
			time.Sleep(time.Duration(op.D))
			synctest.Wait()
			m.Advance(op.D)
			em, v := collect()
			if v != nil {
				return fail(i, v)
			}
			if len(em) > 0 {
				return fail(i, viol("C01", "emission %s while no packet was being processed", emString(em)))
			}
		case "fibins":
			table.FibStrategyTable.InsertNextHopEnc(mkName(op.N), rid(op.F), op.Cost)
			m.applyTableOp(op)
		case "fibrm":
			table.FibStrategyTable.RemoveNextHopEnc(mkName(op.N), rid(op.F))
			m.applyTableOp(op)
		case "down":
			if m.FaceIsUp(op.F) {
				faces[op.F-1].tr.Close() // the link service unregisters the face as for any closed transport
				synctest.Wait()
				m.FaceDown(op.F)
			}
		case "up":
			fs := FaceSpec{Local: op.Local, Link: op.Link}
			id := m.FaceUp(fs)
			faces = append(faces, mkFace(id-1, fs))
			seqs = append(seqs, 0)
			synctest.Wait()
		case "setstrat":
			table.FibStrategyTable.SetStrategyEnc(mkName(op.N), mkName(strategyNames[op.Strat]))
			m.applyTableOp(op)
		case "unsetstrat":
			if op.N != "/" {
				table.FibStrategyTable.UnSetStrategyEnc(mkName(op.N))
			}
			m.applyTableOp(op)
		case "cap":
			table.SetCsCapacity(op.Cap)
			m.applyTableOp(op)
		case "I":
			if !m.FaceIsUp(op.F) {
				continue
			}
			wire := interestWire(op)
			tok, _ := hex.DecodeString(op.Tok)
			if op.Van {
				// the transport closes and the face is unregistered while this frame is still
				// inside the link service
				faces[op.F-1].tr.Close()
				synctest.Wait()
			}
			inject(op.F, wire, tok, op.NextHop, op.Split)
			synctest.Wait()
			if op.HasNonce {
				nonces++
			}
			em, v := collect()
			if v != nil {
				return fail(i, v)
			}
			judge := func() *Violation { return m.Interest(i, op, wire, em) }
			if op.Van {
				judge = func() *Violation { return m.Vanished(op, em, func() *Violation { return m.Interest(i, op, wire, em) }) }
			}
			if v := judge(); v != nil {
				return fail(i, v)
			}
		case "D":
			if !m.FaceIsUp(op.F) {
				continue
			}
			wire := dataWire(op)
			tok, ok := m.ResolveToken(op)
			if !ok {
				continue
			}
			if nth > 1 && m.prefixDispatchLimit(op, tok) && evid.Known("C01", knownPrefixDispatch) {
				// known finding: stop judging this history here (counted)
				m.tainted = "known finding: token-less Data and a prefix-matching PIT entry held by another forwarding thread"
				break
			}
			if op.Van {
				faces[op.F-1].tr.Close()
				synctest.Wait()
			}
			inject(op.F, wire, tok, 0, op.Split)
			synctest.Wait()
			em, v := collect()
			if v != nil {
				return fail(i, v)
			}
			judge := func() *Violation { return m.Data(i, op, wire, tok, em) }
			if op.Van {
				judge = func() *Violation {
					return m.Vanished(op, em, func() *Violation { return m.Data(i, op, wire, tok, em) })
				}
			}
			if v := judge(); v != nil {
				return fail(i, v)
			}
		}
		lo, hi := m.PitBounds()
		if n := pitTotal(); m.tainted == "" && (n < lo || n > hi) {
			v := viol("C08", "after op #%d at +%dms the PITs of the %d threads hold %d entries; between %d and %d are possible (entries: %s)", i, m.now/ms, nth, n, lo, hi, m.pitString())
			if n > hi {
				return fail(i, v)
			}
			if lowV == nil { // (as in the thread-level executor: go on, report at the end)
				lowV, lowAt = v, i
			}
		}
	}
	if lowV != nil {
		return fail(lowAt, lowV)
	}
	out.Tainted = m.tainted
	if m.tainted != "" {
		return out
	}
	quiet := maxLifetime(c) + c.Cfg.DnlMs*ms + 2*slack + int64(nonces)*2*ms + 3000*ms
	time.Sleep(time.Duration(quiet))
	synctest.Wait()
	m.Advance(quiet)
	if em, _ := collect(); len(em) > 0 {
		return fail(len(c.Ops), viol("C01", "emission %s during the quiescent period", emString(em)))
	}
	for ti, th := range threads {
		st := table.VerifPitCsStatsOf(th.VerifPitCS())
		dl, dq := th.VerifDeadNonceLen()
		switch {
		case th.GetNumPitEntries() != 0 || st.PitEntries != 0 || st.TokenMap != 0 || st.ExpiryQueue != 0:
			return fail(len(c.Ops), viol("C08", "thread %d: after a quiescent period of %dms the PIT reports %d entries (%d reachable, %d tokens, %d queued)", ti, quiet/ms, th.GetNumPitEntries(), st.PitEntries, st.TokenMap, st.ExpiryQueue))
		case dl != 0 || dq != 0:
			return fail(len(c.Ops), viol("C08", "thread %d: dead nonce list still holds %d records at quiescence", ti, dl))
		case th.GetNumCsEntries() != st.CsEntries || st.Nodes != st.NodesNeeded:
			return fail(len(c.Ops), viol("C08", "thread %d: CS size %d vs %d reachable; name tree %d nodes, %d needed", ti, th.GetNumCsEntries(), st.CsEntries, st.Nodes, st.NodesNeeded))
		}
	}
	return out
}

// prefixDispatchLimit: the situation of the known finding -- Data without a token in this
// forwarder's format (so it is dispatched by name), and a pending PIT entry it satisfies
// whose name differs from the Data name (held by the thread of *its* name): from a
// non-local face the Data is dispatched to the thread of the exact name only; from a local
// face to the threads of its non-empty prefixes only (never the one of "/").
func (m *Model) prefixDispatchLimit(op Op, tok []byte) bool {
	if len(tok) == 6 {
		return false
	}
	f, ok := m.face(op.F)
	if !ok {
		return false
	}
	for k, e := range m.pit {
		if len(e.in) == 0 || k.Name == op.N || !(k.CBP && isPrefix(k.Name, op.N)) {
			continue
		}
		if !f.Local || k.Name == "/" {
			return true
		}
	}
	return false
}

// ExecuteFull runs a case through the full stack in a fresh bubble (re-confirming a violation once).
func ExecuteFull(t *testing.T, c Case) Outcome {
	var out Outcome
	once := func() {
		synctest.Test(t, func(*testing.T) {
			defer func() {
				if r := recover(); r != nil {
					out.V = viol("C04", "panic in the harness goroutine: %v", r)
				}
			}()
			out = runFull(c)
		})
	}
	once()
	if out.V != nil {
		first := out
		once()
		if out.V == nil {
			return out
		}
		if out.V.Prop != first.V.Prop {
			return first
		}
	}
	return out
}
