package fwsim

import (
	"encoding/hex"
	"fmt"
	"sort"

	"pgregory.net/rapid"
)

// Profile biases the generator towards the behaviour one property is about. Every profile
// generates every kind of operation; only the weights differ.
type Profile struct {
	Name       string
	WInterest  int
	WData      int
	WAdv       int
	WFib       int
	WCap       int
	Localhost  int // percent of names placed under /localhost (and look-alikes)
	ShortLife  bool
	CsOn       int // percent of cases with the cache admitting and serving
	SmallCache bool
	MaxOps     int
	RootCBP    int  // percent of Interests that ask for the root prefix "/" with CanBePrefix
	WChurn     int  // faces removed and added during the history; packets whose arrival face vanishes
	Full       bool // full-stack executor: draw the number of forwarding threads
}

var (
	ProfC01 = Profile{Name: "C01", WChurn: 1, WInterest: 5, WData: 6, WAdv: 3, WFib: 1, WCap: 0, Localhost: 8, CsOn: 40, MaxOps: 40, RootCBP: 4}
	ProfC02 = Profile{Name: "C02", WChurn: 1, WInterest: 8, WData: 2, WAdv: 4, WFib: 3, WCap: 0, Localhost: 5, CsOn: 25, MaxOps: 40}
	ProfC09 = Profile{Name: "C09", WChurn: 1, WInterest: 6, WData: 5, WAdv: 2, WFib: 2, WCap: 0, Localhost: 75, CsOn: 60, MaxOps: 36, RootCBP: 10}
	ProfC08 = Profile{Name: "C08", WChurn: 1, WInterest: 6, WData: 4, WAdv: 4, WFib: 1, WCap: 1, Localhost: 15, ShortLife: true, CsOn: 70, SmallCache: true, MaxOps: 40, RootCBP: 8}
	ProfC07 = Profile{Name: "C07", WChurn: 1, WInterest: 6, WData: 5, WAdv: 3, WFib: 1, WCap: 1, Localhost: 5, CsOn: 100, SmallCache: true, MaxOps: 40}
)

// rawOp is drawn without looking at the history, so that rapid can delete and simplify list
// elements; references are resolved against the reference model afterwards.
type rawOp struct {
	Kind                 int
	A, B, C, D, E, F2, G int
	Lit                  string
	Bool1, Bool2         bool
}

// "32=a" is a typed component with the value bytes of "a"; "32%3Da" is a generic component
// whose value is the text "32=a": three different components that a name-keyed table must
// keep apart (the PIT/CS tree keys its children by component hash, the FIBs by name hash).
var alphabet = []string{"a", "b", "c", "32=a", "32%3Da"}

func genLitName(t *rapid.T) string {
	d := rapid.SampledFrom([]int{0, 1, 1, 2, 2, 2, 3, 3, 4}).Draw(t, "depth")
	c := make([]string, d)
	for i := range c {
		c[i] = alphabet[rapid.SampledFrom([]int{0, 0, 0, 1, 1, 2, 0, 0, 0, 1, 1, 2, 3, 3, 4}).Draw(t, "comp")]
	}
	return join(c)
}

func genRaw(t *rapid.T) rawOp {
	return rawOp{
		Kind:  rapid.IntRange(0, 99).Draw(t, "kind"),
		A:     rapid.IntRange(0, 999).Draw(t, "a"),
		B:     rapid.IntRange(0, 999).Draw(t, "b"),
		C:     rapid.IntRange(0, 999).Draw(t, "c"),
		D:     rapid.IntRange(0, 999).Draw(t, "d"),
		E:     rapid.IntRange(0, 999).Draw(t, "e"),
		F2:    rapid.IntRange(0, 999).Draw(t, "f"),
		G:     rapid.IntRange(0, 999).Draw(t, "g"),
		Lit:   genLitName(t),
		Bool1: rapid.Bool().Draw(t, "b1"),
		Bool2: rapid.Bool().Draw(t, "b2"),
	}
}

var lookalikes = []string{"localhost", "localhost", "localhost", "localhost", "localhos", "localhost2", "localhop", "localhop", "localhop"}

// ------------------------------------------------------------------ predictions (canonical allowed outcome)

type genState struct {
	m       *Model
	motifs  int
	synth   int
	moved   int
	nonceCt uint32
}

func (g *genState) synthTok(k pitKey) []byte {
	// a token already issued for the current incarnation of this entry is re-used
	for t, kk := range g.m.tok {
		if kk == k {
			b, _ := hex.DecodeString(t)
			return b
		}
	}
	g.synth++
	return []byte{0, 0, byte(g.synth >> 24), byte(g.synth >> 16), byte(g.synth >> 8), byte(g.synth)}
}

// predictInterest returns what the forwarder is expected to emit (canonical choice among the allowed outcomes).
func (g *genState) predictInterest(op Op) []Emission {
	m := g.m
	f, ok := m.face(op.F)
	if !ok || op.Hop == 1 || (!f.Local && isLocalhost(op.N)) || !op.HasNonce {
		return nil
	}
	if m.DefinitelyDead(op.N, op.Nonce) {
		return nil
	}
	lookup, hintKey := m.lookupName(op)
	key := pitKey{op.N, op.CBP, op.MBF, hintKey}
	e := m.pit[key]
	hadRecord := false
	if e != nil {
		for gf, r := range e.in {
			if gf != op.F && r.nonce == op.Nonce {
				return nil
			}
		}
		_, hadRecord = e.in[op.F]
	}
	// cache
	if m.cfg.CsServe && !hadRecord {
		names := make([]string, 0, len(m.cache))
		for n := range m.cache {
			names = append(names, n)
		}
		sort.Strings(names)
		for _, n := range names {
			c := m.cache[n]
			if (n == op.N || (op.CBP && isPrefix(op.N, n))) && (!op.MBF || m.now < c.staleAt) && !(isLocalhost(n) && !f.Local) {
				tok, _ := hex.DecodeString(op.Tok)
				return []Emission{{Face: op.F, Kind: 'D', Bytes: c.wire, Tok: tok, Name: n}}
			}
		}
	}
	if op.NextHop != 0 {
		gs, exists := m.face(op.NextHop)
		if !exists || (isLocalhost(op.N) && !gs.Local) || (op.NextHop == op.F && gs.Link == 0) {
			return nil
		}
		return []Emission{{Face: op.NextHop, Kind: 'I'}}
	}
	if e != nil {
		for _, o := range e.out {
			if o.nonce != op.Nonce && m.now-o.sent < suppression {
				return nil
			}
		}
	}
	H := m.lpmHops(lookup)
	var cands []int
	for h := range H {
		gs, exists := m.face(h)
		if !exists || (h == op.F && gs.Link != 2) || (isLocalhost(op.N) && !gs.Local) || (op.Hop == 2 && !gs.Local) {
			continue
		}
		if e != nil {
			if _, has := e.in[h]; has && h != op.F {
				continue
			}
		}
		cands = append(cands, h)
	}
	sort.Slice(cands, func(i, j int) bool {
		if H[cands[i]] != H[cands[j]] {
			return H[cands[i]] < H[cands[j]]
		}
		return cands[i] < cands[j]
	})
	if len(cands) == 0 {
		return nil
	}
	tok := g.synthTok(key)
	if m.lpmStrat(op.N) == 0 {
		return []Emission{{Face: cands[0], Kind: 'I', Tok: tok}}
	}
	var em []Emission
	for _, h := range cands {
		em = append(em, Emission{Face: h, Kind: 'I', Tok: tok})
	}
	return em
}

func (g *genState) predictData(op Op, tok []byte) []Emission {
	m := g.m
	f, ok := m.face(op.F)
	if !ok || (!f.Local && isLocalhost(op.N)) {
		return nil
	}
	var matched []*entry
	if len(tok) == 6 {
		if k, ok := m.tok[hex.EncodeToString(tok)]; ok {
			if e, ok := m.pit[k]; ok {
				matched = append(matched, e)
			}
		}
	} else {
		for k, e := range m.pit {
			if k.Name == op.N || (k.CBP && isPrefix(k.Name, op.N)) {
				matched = append(matched, e)
			}
		}
	}
	var em []Emission
	for _, e := range matched {
		for gf, r := range e.in {
			gs, up := m.face(gf)
			if !up || gf == op.F || r.maybe || r.exp <= m.now || (isLocalhost(op.N) && !gs.Local) {
				continue
			}
			em = append(em, Emission{Face: gf, Kind: 'D', Tok: r.tok, Name: op.N})
		}
	}
	return em
}

// ------------------------------------------------------------------ the generator

// floodCase: a history that is long in one respect only. C08: far more Interests than the PIT reaper
// may handle per pass fall due at the same instant (the statement bounds the removal of every entry,
// not of the first hundred; seeded C01-r9-1 capped the expirations per 100 ms tick). C09: dozens of
// /localhost Interests from a non-local face in a row, then a /localhost Data from there (the
// statement says "ever"; seeded C09-r9-1 stopped dropping after 32 violations in 10 s).
func floodCase(t *rapid.T, p Profile) Case {
	var c Case
	c.Cfg.Faces = []FaceSpec{{Local: true}, {Local: false}, {Local: true}}
	c.Cfg.Algo = rapid.SampledFrom([]string{"nametree", "hashtable"}).Draw(t, "floodAlgo")
	c.Cfg.M = 2
	c.Cfg.DnlMs = 100
	c.Cfg.CsCap = 8
	if p.Name == "C09" {
		c.Ops = append(c.Ops, Op{K: "fibins", N: "/localhost", F: 1, Cost: 1}, Op{K: "fibins", N: "/", F: 3, Cost: 1})
		n := rapid.SampledFrom([]int{31, 32, 33, 40, 70}).Draw(t, "floodN")
		for i := 0; i < n; i++ {
			c.Ops = append(c.Ops, Op{K: "I", F: 2, N: fmt.Sprintf("/localhost/a/x%d", i), HasNonce: true, Nonce: uint32(0x700000 + i), Life: 1000})
		}
		c.Ops = append(c.Ops, Op{K: "I", F: 1, N: "/localhost/b", CBP: true, HasNonce: true, Nonce: 0x7fffff, Life: 1000})
		c.Ops = append(c.Ops, Op{K: "D", F: 2, N: "/localhost/b/c", TokKind: "none", Var: 1})
		return c
	}
	c.Ops = append(c.Ops, Op{K: "fibins", N: "/a", F: 2, Cost: 1})
	n := rapid.SampledFrom([]int{150, 1200, 1500}).Draw(t, "floodN")
	for i := 0; i < n; i++ {
		c.Ops = append(c.Ops, Op{K: "I", F: 1, N: fmt.Sprintf("/a/x%d", i), HasNonce: true, Nonce: uint32(0x700000 + i), Life: 100})
	}
	// just past "shortly after" the lifetime, then something harmless so that the state is looked at
	c.Ops = append(c.Ops, Op{K: "adv", D: int64(100*ms + slack + 60*ms)}, Op{K: "adv", D: int64(1 * ms)},
		Op{K: "I", F: 3, N: "/a/last", HasNonce: true, Nonce: 0x7ffffe, Life: 100}, Op{K: "adv", D: int64(3000 * ms)})
	return c
}

func genCaseFor(p Profile) func(t *rapid.T) Case {
	return func(t *rapid.T) Case {
		if !p.Full && (p.Name == "C08" || p.Name == "C09") && rapid.IntRange(0, 149).Draw(t, "flood") == 0 {
			return floodCase(t, p)
		}
		var c Case
		nf := rapid.IntRange(2, 6).Draw(t, "nfaces")
		for i := 0; i < nf; i++ {
			c.Cfg.Faces = append(c.Cfg.Faces, FaceSpec{
				Local: rapid.Bool().Draw(t, "local"),
				Link:  rapid.SampledFrom([]int{0, 0, 0, 0, 2, 1}).Draw(t, "link"),
			})
		}
		if p.Localhost > 50 {
			// the scope property needs both kinds of faces, and /localhost routes towards both
			c.Cfg.Faces[0].Local, c.Cfg.Faces[1].Local = true, false
			if nf > 2 {
				c.Cfg.Faces[2].Local = true
			}
			c.Ops = append(c.Ops, Op{K: "fibins", N: "/localhost", F: 2, Cost: 1})
			if nf > 2 {
				c.Ops = append(c.Ops, Op{K: "fibins", N: "/localhost", F: 3, Cost: uint64(rapid.IntRange(0, 2).Draw(t, "lcost"))})
			}
		}
		c.Cfg.Algo = rapid.SampledFrom([]string{"nametree", "hashtable"}).Draw(t, "algo")
		c.Cfg.M = rapid.IntRange(1, 4).Draw(t, "m")
		cs := rapid.IntRange(0, 99).Draw(t, "cs") < p.CsOn
		c.Cfg.CsAdmit, c.Cfg.CsServe = cs, cs
		if cs && rapid.IntRange(0, 9).Draw(t, "csmode") == 0 {
			c.Cfg.CsServe = false
		}
		if p.SmallCache {
			c.Cfg.CsCap = rapid.IntRange(0, 4).Draw(t, "cscap")
		} else {
			c.Cfg.CsCap = rapid.SampledFrom([]int{0, 1, 2, 8, 64, 64, 64}).Draw(t, "cscap")
		}
		c.Cfg.DnlMs = rapid.SampledFrom([]int64{100, 1000, 6000}).Draw(t, "dnl")
		switch rapid.IntRange(0, 7).Draw(t, "region") {
		case 0, 1:
			c.Cfg.Regions = []string{"/a/b"}
		case 2:
			c.Cfg.Regions = []string{"/b", "/c/a"}
		case 3:
			// nested regions, the more specific one listed first / last, and a duplicate
			// (seeded defect C02-r4-2 dropped a broader region listed after a narrower one)
			c.Cfg.Regions = []string{"/a/b", "/a"}
		case 4:
			c.Cfg.Regions = []string{"/a", "/a/b", "/a"}
		}
		// initial routes and strategy choices
		initNames := []string{"/", "/a", "/a", "/a/b", "/b", "/localhost", "/localhost/a", "/a/a"}
		nInit := rapid.IntRange(0, 5).Draw(t, "ninit")
		for i := 0; i < nInit; i++ {
			c.Ops = append(c.Ops, Op{K: "fibins", N: rapid.SampledFrom(initNames).Draw(t, "iname"),
				F: rapid.IntRange(1, nf).Draw(t, "iface"), Cost: rapid.SampledFrom([]uint64{0, 1, 1, 2, 10, 0, 1, 2, 10, 1 << 40, 1<<63 + 5, 1<<64 - 1}).Draw(t, "icost")})
		}
		if rapid.IntRange(0, 2).Draw(t, "imc") == 0 {
			c.Ops = append(c.Ops, Op{K: "setstrat", N: rapid.SampledFrom([]string{"/", "/a", "/localhost"}).Draw(t, "isn"), Strat: 1})
		}
		if p.Full {
			c.Cfg.Threads = rapid.SampledFrom([]int{1, 2, 2, 3, 4}).Draw(t, "threads")
		}
		raws := rapid.SliceOfN(rapid.Custom(genRaw), 1, p.MaxOps).Draw(t, "ops")
		lhRoll := rapid.IntRange(0, 99).Draw(t, "lhroll")

		g := &genState{m: NewModel(c.Cfg), nonceCt: 0x1000}
		m := g.m
		for _, op := range c.Ops {
			m.applyTableOp(op)
		}
		total := p.WInterest + p.WData + p.WAdv + p.WFib + p.WCap + p.WChurn
		// faces that exist now, in ascending order (face churn removes and adds some)
		upFaces := func() []int {
			var u []int
			for f := 1; f <= m.NFaces(); f++ {
				if m.FaceIsUp(f) {
					u = append(u, f)
				}
			}
			return u
		}
		pickUp := func(x int) int { u := upFaces(); return u[x%len(u)] }
		const missingFace = 99 // a face number no face of the case ever gets
		// anyFace: an existing face, a removed one or one that never existed
		anyFace := func(x int) int {
			if n := m.NFaces(); x%(n+1) < n {
				return x%(n+1) + 1
			}
			return missingFace
		}
		vanish := func(r rawOp) bool { return p.WChurn > 0 && r.G%53 == 5 && len(upFaces()) > 2 }
		var interestOps []int // indexes of Interest ops in c.Ops
		var dataOps []int
		usedNames := []string{}
		decorate := func(r rawOp, n string) string {
			// place a share of the names under /localhost or a look-alike
			if (r.G+lhRoll)%100 < p.Localhost {
				return join(append([]string{lookalikes[r.G%len(lookalikes)]}, comps(n)...))
			}
			if r.G%97 == 0 {
				return join(append(comps(n), "localhost"))
			}
			return n
		}
		pushAdv := func(d int64) {
			if d <= 0 {
				return
			}
			c.Ops = append(c.Ops, Op{K: "adv", D: d})
			m.Advance(d)
		}
		pendingKeys := func() []pitKey {
			var ks []pitKey
			for k, e := range m.pit {
				if len(e.in) > 0 || len(e.out) > 0 {
					ks = append(ks, k)
				}
			}
			sort.Slice(ks, func(i, j int) bool { return fmt.Sprint(ks[i]) < fmt.Sprint(ks[j]) })
			return ks
		}
		satisfiedKeys := func() []pitKey {
			var ks []pitKey
			for k, e := range m.pit {
				if e.satisfiedAt >= 0 && len(e.in) == 0 && len(e.out) == 0 {
					ks = append(ks, k)
				}
			}
			sort.Slice(ks, func(i, j int) bool { return fmt.Sprint(ks[i]) < fmt.Sprint(ks[j]) })
			return ks
		}
		for _, r := range raws {
			if m.tainted != "" {
				break
			}
			k := r.Kind * total / 100
			switch {
			case k < p.WInterest:
				op := Op{K: "I", F: pickUp(r.A), HasNonce: true, Van: vanish(r)}
				// name and flags: a pending entry (retransmission / aggregation), a cached name, a FIB prefix extension, or a literal
				keys := pendingKeys()
				how := r.B % 10
				var hintKey string
				switch {
				case how < 4 && len(keys) > 0:
					pk := keys[r.C%len(keys)]
					op.N, op.CBP, op.MBF = pk.Name, pk.CBP, pk.MBF
					hintKey = pk.Hint
					if r.D%5 == 0 {
						op.CBP = !op.CBP
					} else if r.G%3 == 0 {
						// a retransmission from a face that already holds an in-record of this entry
						// (its record and the entry's expiry are refreshed; seeded C01-r2-3 computed
						// the new expiry from the previous arrival time)
						var fs []int
						for gf, rec := range m.pit[pk].in {
							if !rec.maybe && rec.exp > m.now && m.FaceIsUp(gf) {
								fs = append(fs, gf)
							}
						}
						sort.Ints(fs)
						if len(fs) > 0 {
							op.F = fs[r.F2%len(fs)]
						}
					}
				case how == 4 && len(satisfiedKeys()) > 0:
					// the key of an entry that was satisfied and may still await the sweep: the
					// Interest re-uses the entry (or finds none: the reference allows both)
					sk := satisfiedKeys()
					pk := sk[r.C%len(sk)]
					op.N, op.CBP, op.MBF = pk.Name, pk.CBP, pk.MBF
					hintKey = pk.Hint
				case how < 6 && len(usedNames) > 0:
					op.N = usedNames[r.C%len(usedNames)]
					op.CBP, op.MBF = r.Bool1, r.Bool2 && r.D%3 == 0
				default:
					op.N = decorate(r, r.Lit)
					op.CBP, op.MBF = r.Bool1, r.Bool2 && r.D%3 == 0
				}
				if r.F2%100 < p.RootCBP {
					op.N, op.CBP, hintKey = "/", true, ""
				}
				if hintKey != "" {
					op.Hints = []string{hintKey}
				} else if r.E%9 == 0 {
					// 1..3 delegations in any order, some inside the producer region
					pool := []string{"/a", "/b", "/a/b/c", "/c/a", "/a/b", "/b/b", "/c"}
					op.Hints = []string{pool[r.D%len(pool)]}
					if r.D%3 != 0 {
						op.Hints = append(op.Hints, pool[(r.D/7)%len(pool)])
					}
					if r.D%5 == 0 {
						op.Hints = append(op.Hints, pool[(r.D/49)%len(pool)])
					}
				}
				// lifetime
				if p.ShortLife {
					op.Life = []int64{5, 20, 100, 600, 2000, 0, -1}[r.D%7] // -1: an InterestLifetime of 0 ms
				} else {
					op.Life = []int64{0, 0, 4000, 1000, 100, 10000}[r.D%6]
				}
				// hop limit: absent mostly; 0, 1, 255
				switch r.E % 20 {
				case 0:
					op.Hop = 1 // 0
				case 1:
					op.Hop = 2 // 1
				case 2, 3:
					op.Hop = 256 // 255
				}
				// downstream PIT token
				switch r.F2 % 5 {
				case 0:
				case 1:
					op.Tok = hex.EncodeToString([]byte{byte(r.F2), byte(r.G)})
				case 2:
					op.Tok = hex.EncodeToString([]byte{0xaa, byte(r.F2), byte(r.G), 1, 2, 3, 4, 5})
				default:
					op.Tok = hex.EncodeToString([]byte{byte(r.A), byte(r.F2), byte(r.G), 9})
				}
				if r.G%29 == 0 {
					op.NextHop = anyFace(r.C) // sometimes a missing or removed face
				}
				_, hk := m.lookupName(op)
				key := pitKey{op.N, op.CBP, op.MBF, hk}
				// step around a lapsed, possibly unreaped entry
				if m.Zombie(key) {
					e := m.pit[key]
					pushAdv(e.maxExp + slack - m.now + 1)
					g.moved++
				}
				// nonce class
				g.nonceCt++
				op.Nonce = g.nonceCt
				e := m.pit[key]
				switch cls := r.E % 10; {
				case cls == 0:
					op.HasNonce = r.D%4 != 0 // a quarter of these: no nonce at all
				case cls <= 2 && e != nil: // loop: nonce of a live in-record of another face
					var fs []int
					for gf, rec := range e.in {
						if gf != op.F && !rec.maybe && rec.exp > m.now {
							fs = append(fs, gf)
						}
					}
					sort.Ints(fs)
					if len(fs) > 0 {
						op.Nonce = e.in[fs[r.C%len(fs)]].nonce
					}
				case cls == 3 && e != nil: // same face, same nonce
					if rec, ok := e.in[op.F]; ok && !rec.maybe {
						op.Nonce = rec.nonce
					}
				case cls == 4 || cls == 5: // a nonce certainly recorded as dead
					var ds []string
					for dk, d := range m.dead {
						if d.from <= m.now && m.now < d.until-ms {
							ds = append(ds, dk)
						}
					}
					sort.Strings(ds)
					if len(ds) > 0 {
						dk := ds[r.C%len(ds)]
						var nm string
						var nn uint32
						for i := len(dk) - 1; i >= 0; i-- {
							if dk[i] == '#' {
								nm = dk[:i]
								fmt.Sscanf(dk[i+1:], "%08x", &nn)
								break
							}
						}
						op.N, op.Nonce = nm, nn
						op.Hints = nil
						_, hk = m.lookupName(op)
						key = pitKey{op.N, op.CBP, op.MBF, hk}
						if m.Zombie(key) {
							op.Nonce = g.nonceCt
						}
					}
				}
				if op.HasNonce && !m.DefinitelyDead(op.N, op.Nonce) && m.PossiblyDead(op.N, op.Nonce) {
					op.Nonce = g.nonceCt // never replay a nonce whose record is uncertain
				}
				if p.Full && r.E%7 == 1 {
					op.Split = 2 + r.G%3
				}
				idx := len(c.Ops)
				c.Ops = append(c.Ops, op)
				if op.Van {
					// canonical outcome: the packet of the vanished face is dropped
					if v := m.Vanished(op, nil, func() *Violation { return m.Interest(idx, op, nil, nil) }); v != nil {
						panic(fmt.Sprintf("generator: the reference rejects its own prediction: %v (op %+v)", v, op))
					}
				} else if v := m.Interest(idx, op, nil, g.predictInterest(op)); v != nil {
					panic(fmt.Sprintf("generator: the reference rejects its own prediction: %v (op %+v)", v, op))
				}
				interestOps = append(interestOps, idx)
				usedNames = append(usedNames, op.N)
			case k < p.WInterest+p.WData:
				op := Op{K: "D", F: pickUp(r.A), Var: r.G % 3}
				op.Fresh = []int64{0, 1, 11, 1001, 1001}[r.E%5]
				keys := pendingKeys()
				how := r.B % 10
				var target *entry
				switch {
				case how < 6 && len(keys) > 0: // solicited
					target = m.pit[keys[r.C%len(keys)]]
					op.N = target.key.Name
					if target.key.CBP && r.D%2 == 0 {
						op.N = join(append(comps(op.N), alphabet[r.D%3]))
					}
					// arrive on a face the Interest was forwarded to, mostly
					var outs []int
					for gf := range target.out {
						outs = append(outs, gf)
					}
					sort.Ints(outs)
					if len(outs) > 0 && r.E%6 != 0 && m.FaceIsUp(outs[r.D%len(outs)]) {
						op.F = outs[r.D%len(outs)]
					}
				case how < 7 && len(dataOps) > 0: // a repeated copy of an earlier Data
					prev := c.Ops[dataOps[r.C%len(dataOps)]]
					if m.FaceIsUp(prev.F) {
						op = prev
						op.Van = false
					} else {
						op.N = prev.N
					}
				case how < 8 && len(usedNames) > 0:
					n := comps(usedNames[r.C%len(usedNames)])
					if r.Bool1 && len(n) > 0 {
						n = n[:len(n)-1] // shorter
					} else if r.Bool2 {
						n = append(append([]string{}, n...), alphabet[r.D%3]) // longer
					}
					op.N = join(n)
				case how < 9 && len(usedNames) > 0 && r.G%2 == 0:
					// a used name with one component replaced by its twin of another type / another escaping
					n := append([]string{}, comps(usedNames[r.C%len(usedNames)])...)
					if len(n) > 0 {
						i := r.D % len(n)
						n[i] = map[string]string{"a": "32=a", "32=a": "a", "32%3Da": "32=a"}[n[i]]
						if n[i] == "" {
							n[i] = "32%3Da"
						}
					}
					op.N = join(n)
				default:
					op.N = decorate(r, r.Lit)
				}
				if op.N == "/" {
					op.N = "/a"
				}
				if op.TokKind == "" {
					switch r.F2 % 10 {
					case 0, 1, 2, 3: // echo the token of a forwarded Interest
						var refs []int
						for _, ii := range interestOps {
							if h, ok := m.tokOp[ii]; ok && !m.ambTok[h] {
								if target == nil || c.Ops[ii].N == target.key.Name || r.G%8 == 0 {
									refs = append(refs, ii)
								}
							}
						}
						if len(refs) > 0 {
							op.TokKind, op.TokRef = "echo", refs[len(refs)-1-(r.D%len(refs))%3%len(refs)]
						}
					case 4: // a token that is not in this forwarder's format
						op.TokKind = "foreign"
						op.Tok = hex.EncodeToString([]byte{1, 2, 3, byte(r.D)}[:1+r.D%4])
						if r.D%2 == 0 {
							op.Tok = hex.EncodeToString([]byte{0, 0, 1, 2, 3, 4, 5, byte(r.D)})
						}
					case 5: // this forwarder's format, never issued
						op.TokKind = "bogus"
						op.Tok = hex.EncodeToString([]byte{0, 0, 0xfe, byte(r.D), byte(r.G), byte(r.A)})
					case 6:
						// full stack only (the link service reads the thread field): the token of a
						// forwarded Interest with its thread field mangled, on Data of a name nobody asked for
						if p.Full {
							var refs []int
							for _, ii := range interestOps {
								if h, ok := m.tokOp[ii]; ok && !m.ambTok[h] {
									if _, live := m.tok[h]; live {
										refs = append(refs, ii)
									}
								}
							}
							if len(refs) > 0 {
								op.TokKind, op.TokRef = "mangled", refs[r.D%len(refs)]
								op.N = fmt.Sprintf("/zz/m%d", r.G%7)
							}
						}
					}
				}
				tok, ok := m.ResolveToken(op)
				if !ok || (len(tok) == 6 && m.ambTok[hex.EncodeToString(tok)]) {
					op.TokKind, op.TokRef, op.Tok = "", 0, ""
					tok = nil
				}
				if p.Full && r.C%5 == 2 {
					op.Split = 2 + r.G%3
				}
				op.Van = vanish(r)
				idx := len(c.Ops)
				c.Ops = append(c.Ops, op)
				if op.Van {
					if v := m.Vanished(op, nil, func() *Violation { return m.Data(idx, op, nil, tok, nil) }); v != nil {
						panic(fmt.Sprintf("generator: the reference rejects its own prediction: %v (op %+v)", v, op))
					}
				} else if v := m.Data(idx, op, nil, tok, g.predictData(op, tok)); v != nil {
					panic(fmt.Sprintf("generator: the reference rejects its own prediction: %v (op %+v)", v, op))
				}
				dataOps = append(dataOps, idx)
				usedNames = append(usedNames, op.N)
				// motif: the entry just satisfied is used again before the forwarder's sweep
				// (at once or a few ms later), the new Interest stays unanswered until it
				// lapses, and its nonce then comes back on another face -- a nonce that must
				// have been recorded as dead although the entry was once satisfied
				if target != nil && target.satisfiedAt >= 0 && len(target.in) == 0 && len(target.out) == 0 && r.F2%3 == 0 && m.tainted == "" {
					if r.G%2 == 0 {
						pushAdv(int64(1+r.G%90) * ms)
					}
					g.nonceCt++
					again := Op{K: "I", F: pickUp(r.B), N: target.key.Name, CBP: target.key.CBP, MBF: target.key.MBF,
						HasNonce: true, Nonce: g.nonceCt, Life: []int64{5, 20, 100, 600}[r.D%4]}
					if target.key.Hint != "" {
						again.Hints = []string{target.key.Hint}
					}
					emitI := func(o Op) bool {
						_, hk := m.lookupName(o)
						if m.Zombie(pitKey{o.N, o.CBP, o.MBF, hk}) || (!m.DefinitelyDead(o.N, o.Nonce) && m.PossiblyDead(o.N, o.Nonce)) {
							return false
						}
						i := len(c.Ops)
						c.Ops = append(c.Ops, o)
						if v := m.Interest(i, o, nil, g.predictInterest(o)); v != nil {
							panic(fmt.Sprintf("generator: the reference rejects its own prediction: %v (op %+v)", v, o))
						}
						interestOps = append(interestOps, i)
						return m.tainted == ""
					}
					if emitI(again) && r.D%5 != 0 {
						pushAdv(again.Life*ms + slack + reapTick + int64(r.E%3)*ms)
						back := again
						if u := upFaces(); len(u) > 1 {
							back.F = u[(r.C+1)%len(u)]
							if back.F == again.F {
								back.F = u[(r.C+2)%len(u)]
							}
							g.motifs++
							emitI(back)
						}
					}
				}
			case k < p.WInterest+p.WData+p.WAdv:
				d := []int64{1, ms, 10 * ms, 100 * ms, 499 * ms, 600 * ms, 1500 * ms, 5000 * ms, 12000 * ms}[r.A%9]
				// aim at an edge: suppression interval, in-record expiry, staleness, dead-nonce expiry
				var edges []int64
				for _, e := range m.pit {
					for _, o := range e.out {
						edges = append(edges, o.sent+suppression)
					}
					for _, in := range e.in {
						edges = append(edges, in.exp)
					}
				}
				for _, cc := range m.cache {
					edges = append(edges, cc.staleAt)
				}
				for _, d := range m.dead {
					// the window in which a replayed nonce is certainly recorded as dead
					if d.from < d.until-2*ms {
						edges = append(edges, d.from+1, d.until-2*ms)
					}
				}
				var fut []int64
				for _, x := range edges {
					if x > m.now {
						fut = append(fut, x)
					}
				}
				sort.Slice(fut, func(i, j int) bool { return fut[i] < fut[j] })
				if len(fut) > 0 && r.B%3 != 0 {
					x := fut[r.C%len(fut)]
					switch r.D % 3 {
					case 0:
						d = x - m.now - 1
					case 1:
						d = x - m.now
					case 2:
						d = x - m.now + 1
					}
				}
				pushAdv(d)
			case k < p.WInterest+p.WData+p.WAdv+p.WFib:
				var op Op
				n := r.Lit
				if len(usedNames) > 0 && r.B%3 != 0 {
					cs := comps(usedNames[r.C%len(usedNames)])
					n = join(cs[:r.D%(len(cs)+1)])
				} else {
					n = decorate(r, n)
				}
				switch r.A % 8 {
				case 0, 1, 2, 3:
					op = Op{K: "fibins", N: n, F: anyFace(r.E), Cost: []uint64{0, 1, 1, 2, 10, 0, 1, 2, 1 << 40, 1<<63 + 5, 1<<64 - 1}[r.F2%11]}
				case 4:
					op = Op{K: "fibrm", N: n, F: pickUp(r.E)}
					// prefer an existing next hop
					var ns []string
					for hn := range m.hops {
						ns = append(ns, hn)
					}
					sort.Strings(ns)
					if len(ns) > 0 {
						op.N = ns[r.C%len(ns)]
						var fs []int
						for hf := range m.hops[op.N] {
							fs = append(fs, hf)
						}
						sort.Ints(fs)
						op.F = fs[r.D%len(fs)]
					}
				case 5, 6:
					op = Op{K: "setstrat", N: n, Strat: r.E % 2}
				case 7:
					op = Op{K: "unsetstrat", N: n}
					if n == "/" {
						op = Op{K: "setstrat", N: "/", Strat: r.E % 2}
					}
				}
				c.Ops = append(c.Ops, op)
				m.applyTableOp(op)
			case k < p.WInterest+p.WData+p.WAdv+p.WFib+p.WChurn:
				// face churn: a face with pending Interests or routes goes away; a new one appears
				// (and, if the implementation re-uses face ids, inherits nothing of the old one)
				if u := upFaces(); r.A%2 == 0 && len(u) > 2 {
					f := u[r.B%len(u)]
					// prefer a face that holds an in-record or is a next hop
					var busy []int
					for _, cand := range u {
						for _, e := range m.pit {
							if _, ok := e.in[cand]; ok {
								busy = append(busy, cand)
								break
							}
						}
					}
					if len(busy) > 0 && r.C%3 != 0 {
						f = busy[r.D%len(busy)]
					}
					if r.F2%3 == 0 {
						f = u[len(u)-1] // the face created last
					}
					c.Ops = append(c.Ops, Op{K: "down", F: f})
					m.FaceDown(f)
					if r.Bool2 && m.NFaces() < 12 {
						// and a new face appears at once (an application restarts, a peer reconnects)
						op := Op{K: "up", Local: r.Bool1, Link: []int{0, 0, 0, 0, 2, 1}[r.E%6]}
						c.Ops = append(c.Ops, op)
						m.FaceUp(FaceSpec{Local: op.Local, Link: op.Link})
					}
				} else if m.NFaces() < 12 {
					op := Op{K: "up", Local: r.Bool1, Link: []int{0, 0, 0, 0, 2, 1}[r.E%6]}
					c.Ops = append(c.Ops, op)
					m.FaceUp(FaceSpec{Local: op.Local, Link: op.Link})
				}
			default:
				op := Op{K: "cap", Cap: r.A % 5}
				c.Ops = append(c.Ops, op)
				m.applyTableOp(op)
			}
		}
		return c
	}
}
