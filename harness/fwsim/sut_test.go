package fwsim

import (
	"encoding/hex"
	"fmt"
	"os"
	"sync"
	"testing"
	"testing/synctest"
	"time"

	"github.com/named-data/ndnd/fw/core"
	"github.com/named-data/ndnd/fw/defn"
	"github.com/named-data/ndnd/fw/dispatch"
	"github.com/named-data/ndnd/fw/fw"
	"github.com/named-data/ndnd/fw/table"
	enc "github.com/named-data/ndnd/std/encoding"
	"github.com/named-data/ndnd/std/log"
	"github.com/named-data/ndnd/std/ndn"
	spec "github.com/named-data/ndnd/std/ndn/spec_2022"
	sec "github.com/named-data/ndnd/std/security"
	"github.com/named-data/ndnd/std/utils"
)

func init() { log.SetLevel(log.FatalLevel) }

// ------------------------------------------------------------------ recording fake face

type fakeFace struct {
	id    uint64
	spec  FaceSpec
	mu    sync.Mutex
	queue []Emission
}

func (f *fakeFace) String() string          { return fmt.Sprintf("fake-%d", f.id) }
func (f *fakeFace) SetFaceID(id uint64)     { f.id = id }
func (f *fakeFace) FaceID() uint64          { return f.id }
func (f *fakeFace) LocalURI() *defn.URI     { return nil }
func (f *fakeFace) RemoteURI() *defn.URI    { return nil }
func (f *fakeFace) MTU() int                { return 8800 }
func (f *fakeFace) State() defn.State       { return defn.Up }
func (f *fakeFace) LinkType() defn.LinkType { return defn.LinkType(f.spec.Link) }
func (f *fakeFace) Scope() defn.Scope {
	if f.spec.Local {
		return defn.Local
	}
	return defn.NonLocal
}

func (f *fakeFace) SendPacket(out dispatch.OutPkt) {
	e := Emission{Face: int(f.id), Bytes: append([]byte{}, out.Pkt.Raw...), Tok: append([]byte{}, out.PitToken...)}
	switch {
	case out.Pkt.L3 != nil && out.Pkt.L3.Interest != nil:
		e.Kind = 'I'
	case out.Pkt.L3 != nil && out.Pkt.L3.Data != nil:
		e.Kind = 'D'
		e.Name = out.Pkt.L3.Data.NameV.String()
	default:
		e.Kind = '?'
	}
	f.mu.Lock()
	f.queue = append(f.queue, e)
	f.mu.Unlock()
}

// ------------------------------------------------------------------ packets

var sha = sec.NewSha256Signer()

var nameCache = map[string]enc.Name{}

func mkName(s string) enc.Name {
	if n, ok := nameCache[s]; ok {
		return n.Clone()
	}
	n, err := enc.NameFromStr(s)
	if err != nil {
		panic(err)
	}
	nameCache[s] = n
	return n.Clone()
}

func interestWire(op Op) []byte {
	cfg := &ndn.InterestConfig{CanBePrefix: op.CBP, MustBeFresh: op.MBF}
	if op.HasNonce {
		cfg.Nonce = utils.IdPtr(uint64(op.Nonce))
	}
	if op.Life > 0 {
		cfg.Lifetime = utils.IdPtr(time.Duration(op.Life) * time.Millisecond)
	} else if op.Life < 0 {
		cfg.Lifetime = utils.IdPtr(time.Duration(0))
	}
	if op.Hop > 0 {
		cfg.HopLimit = utils.IdPtr(uint(op.Hop - 1))
	}
	for _, h := range op.Hints {
		cfg.ForwardingHint = append(cfg.ForwardingHint, mkName(h))
	}
	ei, err := spec.Spec{}.MakeInterest(mkName(op.N), cfg, nil, nil)
	if err != nil {
		panic(fmt.Sprintf("harness: MakeInterest: %v", err))
	}
	return ei.Wire.Join()
}

func dataWire(op Op) []byte {
	cfg := &ndn.DataConfig{}
	if op.Fresh > 0 {
		cfg.Freshness = utils.IdPtr(time.Duration(op.Fresh-1) * time.Millisecond)
	}
	content := enc.Wire{[]byte(fmt.Sprintf("payload %s v%d", op.N, op.Var))}
	ed, err := spec.Spec{}.MakeData(mkName(op.N), cfg, content, sha)
	if err != nil {
		panic(fmt.Sprintf("harness: MakeData: %v", err))
	}
	return ed.Wire.Join()
}

// asPkt builds the packet descriptor exactly as the link service does for a received frame.
func asPkt(wire []byte, face int, tok []byte, nextHop int) *defn.Pkt {
	raw := append([]byte{}, wire...)
	l3, _, err := spec.ReadPacket(enc.NewBufferReader(raw))
	if err != nil {
		panic(fmt.Sprintf("harness: cannot parse own packet: %v", err))
	}
	p := &defn.Pkt{Raw: raw, L3: l3, IncomingFaceID: utils.IdPtr(uint64(face))}
	if len(tok) > 0 {
		p.PitToken = append([]byte{}, tok...)
	}
	if nextHop != 0 {
		p.NextHopFaceID = utils.IdPtr(uint64(nextHop))
	}
	if l3.Interest != nil {
		p.Name = l3.Interest.NameV
	} else if l3.Data != nil {
		p.Name = l3.Data.NameV
	}
	return p
}

// ------------------------------------------------------------------ execution

type Outcome struct {
	Model   *Model
	V       *Violation // first violation (nil if none)
	AtOp    int
	Tainted string
}

var strategyNames = []string{"/localhost/nfd/strategy/best-route/v=1", "/localhost/nfd/strategy/multicast/v=1"}

func maxLifetime(c Case) int64 {
	mx := defaultLifetime
	for _, op := range c.Ops {
		if op.K == "I" && lifetimeOf(op) > mx {
			mx = lifetimeOf(op)
		}
	}
	return mx
}

// run executes the case inside the current synctest bubble.
func run(c Case) (out Outcome) {
	cfg := core.DefaultConfig()
	cfg.Fw.Threads = 1
	cfg.Tables.ContentStore.Capacity = uint16(c.Cfg.CsCap)
	cfg.Tables.ContentStore.Admit = c.Cfg.CsAdmit
	cfg.Tables.ContentStore.Serve = c.Cfg.CsServe
	cfg.Tables.DeadNonceList.Lifetime = int(c.Cfg.DnlMs)
	cfg.Tables.NetworkRegion.Regions = append([]string{}, c.Cfg.Regions...)
	cfg.Tables.Fib.Algorithm = c.Cfg.Algo
	cfg.Tables.Fib.Hashtable.M = uint16(c.Cfg.M)
	core.LoadConfig(cfg, "")
	core.ShouldQuit = false
	table.VerifReset()
	table.Configure()
	fw.Configure()
	table.CreateFIBTable(c.Cfg.Algo)

	th := fw.NewThread(0)
	fw.Threads = []*fw.Thread{th}
	dispatch.InitializeFWThreads([]dispatch.FWThread{th})
	faces := make([]*fakeFace, len(c.Cfg.Faces))
	for i, fs := range c.Cfg.Faces {
		faces[i] = &fakeFace{id: uint64(i + 1), spec: fs}
		dispatch.AddFace(uint64(i+1), faces[i])
	}
	go th.Run()
	defer func() {
		synctest.Wait()
		core.ShouldQuit = true
		th.TellToQuit()
		<-th.HasQuit
		core.ShouldQuit = false
		for i := range faces {
			dispatch.RemoveFace(uint64(i + 1))
		}
	}()
	// face churn: a removed face leaves the dispatch map (what face.Table.Remove does for the
	// forwarding threads); a packet of a vanishing face is queued after the face has left,
	// which is the state the thread finds when the face went away while the packet waited
	faceDown := func(id int) {
		dispatch.RemoveFace(uint64(id))
	}

	collect := func() []Emission {
		var em []Emission
		for _, f := range faces {
			f.mu.Lock()
			em = append(em, f.queue...)
			f.queue = nil
			f.mu.Unlock()
		}
		return em
	}

	m := NewModel(c.Cfg)
	out.Model = m
	out.AtOp = -1
	fail := func(i int, v *Violation) Outcome {
		out.V, out.AtOp = v, i
		return out
	}
	nonces := 0
	var lowV *Violation
	lowAt := 0
	for i, op := range c.Ops {
		if m.tainted != "" {
			break
		}
		switch op.K {
		case "adv":
			time.Sleep(time.Duration(op.D))
			synctest.Wait()
			m.Advance(op.D)
			if em := collect(); len(em) > 0 {
				return fail(i, viol("C01", "emission %s while no packet was being processed", emString(em)))
			}
		case "fibins":
			table.FibStrategyTable.InsertNextHopEnc(mkName(op.N), uint64(op.F), op.Cost)
			m.applyTableOp(op)
		case "fibrm":
			table.FibStrategyTable.RemoveNextHopEnc(mkName(op.N), uint64(op.F))
			m.applyTableOp(op)
		case "setstrat":
			table.FibStrategyTable.SetStrategyEnc(mkName(op.N), mkName(strategyNames[op.Strat]))
			m.applyTableOp(op)
		case "unsetstrat":
			if op.N != "/" {
				table.FibStrategyTable.UnSetStrategyEnc(mkName(op.N))
			}
			m.applyTableOp(op)
		case "cap":
			table.SetCsCapacity(op.Cap)
			m.applyTableOp(op)
		case "down":
			if m.FaceIsUp(op.F) {
				faceDown(op.F)
				m.FaceDown(op.F)
			}
		case "up":
			fs := FaceSpec{Local: op.Local, Link: op.Link}
			id := m.FaceUp(fs)
			ff := &fakeFace{id: uint64(id), spec: fs}
			faces = append(faces, ff)
			dispatch.AddFace(uint64(id), ff)
		case "I":
			if !m.FaceIsUp(op.F) {
				continue
			}
			wire := interestWire(op)
			tok, _ := hex.DecodeString(op.Tok)
			if op.Van {
				faceDown(op.F)
			}
			th.QueueInterest(asPkt(wire, op.F, tok, op.NextHop))
			synctest.Wait()
			if op.HasNonce {
				nonces++
			}
			em := collect()
			if os.Getenv("VERIF_TRACE") != "" {
				fmt.Printf("TRACE op #%d %+v -> %s\n", i, op, emString(em))
			}
			judge := func() *Violation { return m.Interest(i, op, wire, em) }
			if op.Van {
				judge = func() *Violation { return m.Vanished(op, em, func() *Violation { return m.Interest(i, op, wire, em) }) }
			}
			if v := judge(); v != nil {
				return fail(i, v)
			}
		case "D":
			if !m.FaceIsUp(op.F) {
				continue
			}
			wire := dataWire(op)
			tok, ok := m.ResolveToken(op)
			if !ok {
				continue // the referenced Interest was never forwarded: nothing to echo
			}
			if op.Van {
				faceDown(op.F)
			}
			th.QueueData(asPkt(wire, op.F, tok, 0))
			synctest.Wait()
			em := collect()
			if os.Getenv("VERIF_TRACE") != "" {
				fmt.Printf("TRACE op #%d %+v tok %x -> %s\n", i, op, tok, emString(em))
			}
			judge := func() *Violation { return m.Data(i, op, wire, tok, em) }
			if op.Van {
				judge = func() *Violation {
					return m.Vanished(op, em, func() *Violation { return m.Data(i, op, wire, tok, em) })
				}
			}
			if v := judge(); v != nil {
				return fail(i, v)
			}
		}
		// C08 during the history: entries past their lifetime (+slack) must be gone,
		// entries with a live in-record must exist
		lo, hi := m.PitBounds()
		if n := th.GetNumPitEntries(); m.tainted == "" && (n < lo || n > hi) {
			v := viol("C08", "after op #%d at +%dms the PIT holds %d entries; between %d and %d are possible (entries: %s)", i, m.now/ms, n, lo, hi, m.pitString())
			if n > hi {
				return fail(i, v)
			}
			// too few: an entry with a live in-record is gone. The history goes on, so that the
			// consequence for that face (Data that no longer reaches it: C01) can show; if nothing
			// else is found the missing entry itself is reported at the end
			if lowV == nil {
				lowV, lowAt = v, i
			}
		}
	}
	if lowV != nil {
		return fail(lowAt, lowV)
	}
	out.Tainted = m.tainted
	if os.Getenv("VERIF_TRACE") != "" {
		fmt.Printf("TRACE end of history: stopped=%q\n", m.tainted)
	}
	if m.tainted != "" {
		return out
	}
	// C08 at quiescence: longer than every lifetime involved plus the dead-nonce lifetime
	quiet := maxLifetime(c) + c.Cfg.DnlMs*ms + 2*slack + int64(nonces)*2*ms + 3000*ms
	time.Sleep(time.Duration(quiet))
	synctest.Wait()
	m.Advance(quiet)
	if em := collect(); len(em) > 0 {
		return fail(len(c.Ops), viol("C01", "emission %s during the quiescent period", emString(em)))
	}
	st := table.VerifPitCsStatsOf(th.VerifPitCS())
	dl, dq := th.VerifDeadNonceLen()
	switch {
	case th.GetNumPitEntries() != 0 || st.PitEntries != 0:
		return fail(len(c.Ops), viol("C08", "after a quiescent period of %dms the PIT reports %d entries (%d reachable in the name tree)", quiet/ms, th.GetNumPitEntries(), st.PitEntries))
	case st.TokenMap != 0 || st.ExpiryQueue != 0:
		return fail(len(c.Ops), viol("C08", "at quiescence the PIT token map holds %d tokens and the expiry queue %d items", st.TokenMap, st.ExpiryQueue))
	case dl != 0 || dq != 0:
		return fail(len(c.Ops), viol("C08", "at quiescence, %dms after the last packet, the dead nonce list still holds %d records (queue %d); configured lifetime %dms", quiet/ms, dl, dq, c.Cfg.DnlMs))
	case th.GetNumCsEntries() != st.CsEntries || st.CsEntries != st.CsMap:
		return fail(len(c.Ops), viol("C08", "reported CS size %d, entries reachable %d, index %d", th.GetNumCsEntries(), st.CsEntries, st.CsMap))
	case st.Nodes != st.NodesNeeded:
		return fail(len(c.Ops), viol("C08", "at quiescence the PIT/CS name tree holds %d nodes but only %d lie on a path to a live cache entry (%d cache entries)", st.Nodes, st.NodesNeeded, st.CsEntries))
	case th.GetNumCsEntries() > m.cfg.CsCap && m.newNameSinceCap:
		return fail(len(c.Ops), viol("C07", "CS holds %d packets, capacity %d", th.GetNumCsEntries(), m.cfg.CsCap))
	}
	return out
}

// Execute runs a case in a fresh bubble. A violation is re-confirmed by a second run from
// scratch (PIT tokens are random in the code under test: a chance collision with a made-up
// token must not be reported).
func Execute(t *testing.T, c Case) Outcome {
	var out Outcome
	once := func() {
		synctest.Test(t, func(*testing.T) {
			defer func() {
				if r := recover(); r != nil {
					out.V = viol("C04", "panic in the harness goroutine: %v", r)
				}
			}()
			out = run(c)
		})
	}
	once()
	if out.V != nil {
		first := out
		once()
		if out.V == nil {
			return out
		}
		if out.V.Prop != first.V.Prop {
			return first
		}
	}
	return out
}
