// Package fwsim drives one real forwarding thread (fw.Thread.Run) inside a synctest bubble
// with recording fake faces and judges every emission against a reference model written
// from the statements of C01, C02, C07, C08 and C09 (DESIGN.md, "Shared harness fwsim" and
// Appendix A). This file is the reference model: pure, no dependency on the code under test.
package fwsim

import (
	"bytes"
	"encoding/hex"
	"fmt"
	"sort"
	"strings"
)

// ------------------------------------------------------------------ case data

type FaceSpec struct {
	Local bool `json:"local"`
	Link  int  `json:"link"` // 0 point-to-point, 1 multi-access, 2 ad-hoc
}

type Config struct {
	Faces   []FaceSpec `json:"faces"` // face ids 1..n
	Algo    string     `json:"algo"`
	M       int        `json:"m"`
	CsAdmit bool       `json:"admit"`
	CsServe bool       `json:"serve"`
	CsCap   int        `json:"cscap"`
	DnlMs   int64      `json:"dnl"`
	Regions []string   `json:"regions,omitempty"`
	Threads int        `json:"threads,omitempty"` // full-stack executor only: number of forwarding threads (0 = thread-level executor)
}

type Op struct {
	K string `json:"k"` // I | D | adv | fibins | fibrm | setstrat | unsetstrat | cap | down | up
	F int    `json:"f,omitempty"`
	N string `json:"n,omitempty"`

	// Interest
	CBP      bool     `json:"cbp,omitempty"`
	MBF      bool     `json:"mbf,omitempty"`
	HasNonce bool     `json:"hn,omitempty"`
	Nonce    uint32   `json:"nonce,omitempty"`
	Life     int64    `json:"life,omitempty"` // ms; 0 = absent (default 4000); -1 = present with the value 0
	Hop      int      `json:"hop,omitempty"`  // -1 absent... stored +1: 0 = absent, h+1 otherwise
	Hints    []string `json:"hints,omitempty"`
	Tok      string   `json:"tok,omitempty"` // hex: downstream token (I) / explicit token (D, foreign or bogus)
	NextHop  int      `json:"nh,omitempty"`
	// Split (full-stack executor only): the packet arrives as this many NDNLPv2 fragments
	// (0, 1 = one frame), which the link service reassembles before dispatch.
	Split int `json:"sp,omitempty"`

	// Data
	TokKind string `json:"tk,omitempty"`    // none | echo | foreign | bogus
	TokRef  int    `json:"tr,omitempty"`    // echo: index of the Interest op whose forwarded copy's token is echoed
	Fresh   int64  `json:"fresh,omitempty"` // ms + 1; 0 = no FreshnessPeriod
	Var     int    `json:"var,omitempty"`

	D int64 `json:"d,omitempty"` // adv: nanoseconds

	// face churn: "down" removes face F (unregistered as when its transport closes); "up" adds a
	// face (Local, Link) which becomes face number len(faces)+1 of the case; Van on an I or D
	// op: face F disappears while this packet of its is still queued for the forwarding thread
	Van   bool `json:"van,omitempty"`
	Local bool `json:"loc,omitempty"`
	Link  int  `json:"lnk,omitempty"`

	Cost  uint64 `json:"cost,omitempty"`
	Strat int    `json:"strat,omitempty"` // 0 best-route, 1 multicast
	Cap   int    `json:"cap,omitempty"`
}

type Case struct {
	Cfg Config `json:"cfg"`
	Ops []Op   `json:"ops"`
}

// Emission is one packet handed to a face by the forwarder.
type Emission struct {
	Face  int
	Kind  byte // 'I' or 'D'
	Bytes []byte
	Tok   []byte
	Name  string // name of an emitted Data (filled by the executor / the predictor)
}

// Violation is an oracle failure, tagged with the property whose statement it breaks.
type Violation struct {
	Prop string
	Msg  string
}

func (v *Violation) Error() string { return v.Prop + ": " + v.Msg }

func viol(prop, f string, a ...any) *Violation { return &Violation{prop, fmt.Sprintf(f, a...)} }

// ------------------------------------------------------------------ constants taken from the statements

const (
	ms              = int64(1e6)
	suppression     = 500 * ms
	defaultLifetime = 4000 * ms
	slack           = 1000 * ms // "shortly after": bound on reaping delay claimed by C08
	reapTick        = 200 * ms  // when a reaped entry's nonces are certainly recorded as dead
)

// ------------------------------------------------------------------ names

func comps(s string) []string {
	if s == "/" || s == "" {
		return nil
	}
	return strings.Split(strings.TrimPrefix(s, "/"), "/")
}

func join(c []string) string {
	if len(c) == 0 {
		return "/"
	}
	return "/" + strings.Join(c, "/")
}

func prefixesOf(s string) []string {
	c := comps(s)
	out := make([]string, 0, len(c)+1)
	for i := 0; i <= len(c); i++ {
		out = append(out, join(c[:i]))
	}
	return out
}

func isPrefix(p, n string) bool {
	pc, nc := comps(p), comps(n)
	if len(pc) > len(nc) {
		return false
	}
	for i := range pc {
		if pc[i] != nc[i] {
			return false
		}
	}
	return true
}

func isLocalhost(n string) bool {
	c := comps(n)
	return len(c) > 0 && c[0] == "localhost"
}

// ------------------------------------------------------------------ state

type pitKey struct {
	Name string
	CBP  bool
	MBF  bool
	Hint string
}

type inRec struct {
	nonce uint32
	tok   []byte   // token supplied with the latest Interest of this face
	toks  []string // hex of every token this face supplied since the record exists (which one is echoed is left open)
	exp   int64
	maybe bool // the implementation may or may not hold this record (Interest dropped by a rule the statements leave open)
}

type outRec struct {
	nonce uint32
	sent  int64
	exp   int64
}

type entry struct {
	key         pitKey
	in          map[int]*inRec
	out         map[int]*outRec
	maxExp      int64 // latest lifetime end among the Interests recorded in this incarnation
	satisfiedAt int64 // -1 if unsatisfied
	csHitAt     int64 // -1; time of the latest cache-hit answer given through this entry
	viaNextHop  bool  // forwarded through a consumer-chosen next hop (no out-record semantics pinned)
}

type deadRec struct{ from, until int64 }

type cached struct {
	// every distinct wire ever admitted under the name, with the latest instant at which a copy
	// of it goes stale (only consulted with several forwarding threads: one store per thread)
	versions map[string]int64
	wire     []byte
	at       int64
	staleAt  int64
	name     string
	everSeen int
}

type Model struct {
	cfg   Config
	now   int64
	hops  map[string]map[int]uint64
	strat map[string]int
	pit   map[pitKey]*entry
	tok   map[string]pitKey // hex of an observed forwarder-issued token -> entry key (current incarnation)
	tokOp map[int]string    // Interest op index -> hex token observed on its forwarded copy
	// tokens issued for an earlier incarnation of an entry that was satisfied and then re-used
	// by a new Interest: whether they are still valid depends on whether the implementation had
	// reaped the satisfied entry already
	ambTok map[string]bool
	dead   map[string]deadRec
	// earliest instant (+1) at which the implementation may already have recorded a (name,
	// nonce) as dead (it records the previous nonce of a retransmitting face); a record lives
	// for the configured lifetime from its *first* insertion, which bounds the definite window
	early map[string]int64
	// /localhost Data names that arrived on a non-local face (must not have been accepted)
	refused map[string]bool
	cache   map[string]*cached
	// cacheSafe: nothing can have been evicted yet (distinct admitted names never exceeded the smallest capacity configured)
	distinct, minCap int
	// a packet was admitted under a new name since the capacity was last changed: from then
	// on at most CsCap packets may be cached
	newNameSinceCap bool
	tainted         string       // non-empty: an ambiguous situation was touched; nothing is judged any more
	gone            map[int]bool // faces that were removed

	// statistics for the non-triviality rules
	St Stats
}

type Stats struct {
	DataDelivered, MultiMatch, TokenEcho, DupData, Unsolicited                    int
	Forwarded, NotFwdLoop, NotFwdDead, NotFwdHop, NotFwdSuppressed, NotFwdNoNonce int
	FibChanges, CsHits, Expired, Satisfied, Evictable                             int
	FaceDown, FaceUp, VanishedArrival, DataForGoneFace, HopViaGoneFace            int
	MangledToken                                                                  int
	LocalhostNonLocalCandidate, LocalhostLocalExchange, LocalhostInboundRejected  int
	RetxForwarded, HintUsed, NextHopUsed, AllowedArrivalCopy, LapsedAllowed       int
	ReusedSatisfied                                                               int
}

func NewModel(cfg Config) *Model {
	cfg.Faces = append([]FaceSpec{}, cfg.Faces...)
	return &Model{gone: map[int]bool{}, cfg: cfg, hops: map[string]map[int]uint64{}, strat: map[string]int{"/": 0},
		pit: map[pitKey]*entry{}, tok: map[string]pitKey{}, tokOp: map[int]string{}, ambTok: map[string]bool{},
		dead: map[string]deadRec{}, early: map[string]int64{}, refused: map[string]bool{}, cache: map[string]*cached{}, minCap: cfg.CsCap}
}

func (m *Model) Now() int64      { return m.now }
func (m *Model) Tainted() string { return m.tainted }

// face: the face with this number, if it exists now (a removed face does not).
func (m *Model) face(id int) (FaceSpec, bool) {
	if id < 1 || id > len(m.cfg.Faces) {
		return FaceSpec{}, false
	}
	return m.cfg.Faces[id-1], !m.gone[id]
}

// NFaces: how many faces the case has had so far (removed ones included).
func (m *Model) NFaces() int { return len(m.cfg.Faces) }

// FaceIsUp reports whether face id exists now.
func (m *Model) FaceIsUp(id int) bool { _, ok := m.face(id); return ok }

// FaceDown: the face is unregistered. Whether the forwarder keeps or purges what it recorded
// for that face is not pinned by any statement: its in-records become uncertain (Data need not,
// and observably cannot, reach it; an entry held alive only by them may or may not remain).
func (m *Model) FaceDown(id int) {
	if _, ok := m.face(id); !ok {
		return
	}
	m.gone[id] = true
	m.St.FaceDown++
	for _, e := range m.pit {
		if r, ok := e.in[id]; ok {
			r.maybe = true
		}
	}
}

// FaceUp: a new face appears; it gets the next face number of the case.
func (m *Model) FaceUp(fs FaceSpec) int {
	m.cfg.Faces = append(m.cfg.Faces, fs)
	m.St.FaceUp++
	return len(m.cfg.Faces)
}

// Vanished judges a packet whose arrival face was unregistered while the packet was still
// queued: the forwarder may drop it or process it as usual -- but a /localhost packet from a
// non-local face has no effect either way (C09). judge is m.Interest or m.Data bound to the op.
func (m *Model) Vanished(op Op, em []Emission, judge func() *Violation) *Violation {
	if m.tainted != "" {
		return nil
	}
	f, _ := m.face(op.F)
	m.St.VanishedArrival++
	noEffect := !f.Local && isLocalhost(op.N)
	var v *Violation
	if len(em) > 0 || noEffect {
		v = judge() // processed (or must have no effect): the usual rules apply
	}
	m.FaceDown(op.F)
	if v != nil {
		return v
	}
	if len(em) == 0 && !noEffect && m.tainted == "" {
		m.tainted = "arrival face unregistered while its packet was queued: dropped or processed, both allowed"
	}
	return nil
}

func (m *Model) lpmHops(name string) map[int]uint64 {
	ps := prefixesOf(name)
	for i := len(ps) - 1; i >= 0; i-- {
		if h := m.hops[ps[i]]; len(h) > 0 {
			return h
		}
	}
	return nil
}

func (m *Model) lpmStrat(name string) int {
	ps := prefixesOf(name)
	for i := len(ps) - 1; i >= 0; i-- {
		if s, ok := m.strat[ps[i]]; ok {
			return s
		}
	}
	return 0
}

func (m *Model) isProducerRegion(name string) bool {
	for _, r := range m.cfg.Regions {
		if isPrefix(r, name) {
			return true
		}
	}
	return false
}

// lookupName: the Interest name, or the first forwarding hint outside the producer region
// when hints are present and none of them is inside the producer region.
func (m *Model) lookupName(op Op) (lookup string, hintKey string) {
	if len(op.Hints) == 0 {
		return op.N, ""
	}
	first := ""
	for _, h := range op.Hints {
		if m.isProducerRegion(h) {
			return op.N, ""
		}
		if first == "" {
			first = h
		}
	}
	return first, first
}

func lifetimeOf(op Op) int64 {
	if op.Life > 0 {
		return op.Life * ms
	}
	if op.Life < 0 { // the InterestLifetime element is there and says 0 ms (an absent one means the default)
		return 0
	}
	return defaultLifetime
}

func deadKey(name string, nonce uint32) string { return fmt.Sprintf("%s#%08x", name, nonce) }

// markDead records that (name, nonce) is certainly recorded as dead from `from` on, for the
// configured lifetime counted from its earliest possible insertion.
func (m *Model) markDead(name string, nonce uint32, from, inserted int64) {
	k := deadKey(name, nonce)
	if e, ok := m.early[k]; ok && e-1 < inserted {
		inserted = e - 1
	}
	if old, ok := m.dead[k]; ok && old.until-m.cfg.DnlMs*ms < inserted {
		inserted = old.until - m.cfg.DnlMs*ms
		if old.from < from {
			from = old.from
		}
	}
	m.dead[k] = deadRec{from, inserted + m.cfg.DnlMs*ms}
}

// DefinitelyDead: (name, nonce) is certainly recorded as dead at this instant.
func (m *Model) DefinitelyDead(name string, nonce uint32) bool {
	d, ok := m.dead[deadKey(name, nonce)]
	return ok && d.from <= m.now && m.now < d.until
}

// PossiblyDead: the record may exist (insertion or expiry instant not pinned).
func (m *Model) PossiblyDead(name string, nonce uint32) bool {
	k := deadKey(name, nonce)
	if e, ok := m.early[k]; ok && m.now < e-1+m.cfg.DnlMs*ms+slack+2000*ms {
		return true
	}
	d, ok := m.dead[k]
	return ok && m.now < d.until+slack+2000*ms
}

func (e *entry) latestInExp(definiteOnly bool) int64 {
	x := int64(-1)
	for _, r := range e.in {
		if definiteOnly && r.maybe {
			continue
		}
		if r.exp > x {
			x = r.exp
		}
	}
	return x
}

// certainlyAlive: some definite in-record has not lapsed.
func (m *Model) certainlyAlive(e *entry) bool { return e.latestInExp(true) > m.now }

// Zombie: all in-records lapsed (or none), the entry is unsatisfied with records, and the
// implementation may or may not have reaped it yet. Interests addressed to such a key have
// no pinned behaviour.
func (m *Model) Zombie(k pitKey) bool {
	e, ok := m.pit[k]
	if !ok {
		return false
	}
	if e.satisfiedAt >= 0 && len(e.in) == 0 && len(e.out) == 0 {
		return false // satisfied and cleared: indistinguishable from a fresh entry
	}
	if len(e.in) == 0 && len(e.out) == 0 {
		return false
	}
	return !m.certainlyAlive(e)
}

// ------------------------------------------------------------------ FIB / config operations

func (m *Model) applyTableOp(op Op) {
	switch op.K {
	case "fibins":
		if m.hops[op.N] == nil {
			m.hops[op.N] = map[int]uint64{}
		}
		m.hops[op.N][op.F] = op.Cost
		m.St.FibChanges++
	case "fibrm":
		if h := m.hops[op.N]; h != nil {
			delete(h, op.F)
			if len(h) == 0 {
				delete(m.hops, op.N)
			}
		}
		m.St.FibChanges++
	case "setstrat":
		m.strat[op.N] = op.Strat
		m.St.FibChanges++
	case "unsetstrat":
		if op.N != "/" {
			delete(m.strat, op.N)
		}
		m.St.FibChanges++
	case "cap":
		m.cfg.CsCap = op.Cap
		m.newNameSinceCap = false
		if op.Cap < m.minCap {
			m.minCap = op.Cap
		}
	}
}

// Advance moves the model clock and retires entries that must be gone by now.
func (m *Model) Advance(d int64) {
	m.now += d
	for k, e := range m.pit {
		gone := false
		if e.satisfiedAt >= 0 && len(e.in) == 0 && len(e.out) == 0 {
			gone = e.satisfiedAt+slack <= m.now
		} else if e.maxExp+slack <= m.now {
			gone = true
			m.St.Expired++
			// unsatisfied: out-record nonces are recorded as dead under the Interest name when reaped
			for _, o := range e.out {
				// the entry may have been reaped as early as its latest current in-record lapsed
				if lapse := e.latestInExp(true); lapse >= 0 {
					m.markDead(k.Name, o.nonce, e.maxExp+reapTick, lapse)
				} else {
					m.markDead(k.Name, o.nonce, 1<<62, e.maxExp)
				}
			}
		}
		if gone {
			delete(m.pit, k)
			for t, kk := range m.tok {
				if kk == k {
					delete(m.tok, t)
				}
			}
		}
	}
}

// ------------------------------------------------------------------ bounds for C08 (during the history)

// PitBounds: how many PIT entries the forwarder must at least / may at most hold now.
func (m *Model) PitBounds() (lo, hi int) {
	for _, e := range m.pit {
		hi++
		if m.certainlyAlive(e) {
			lo++
		}
	}
	return
}

// ------------------------------------------------------------------ Interest

// wantInterestBytes: the received bytes with the hop limit octet reduced by one.
func wantInterestBytes(orig []byte) []byte {
	out := append([]byte{}, orig...)
	if off := hopLimitOffset(orig); off >= 0 {
		out[off]--
	}
	return out
}

// hopLimitOffset finds the value octet of the HopLimit element (type 0x22, length 1) among
// the top-level elements of an Interest (type 0x05); -1 if absent. Independent mini walker.
func hopLimitOffset(w []byte) int {
	readVar := func(p int) (uint64, int) {
		if p >= len(w) {
			return 0, -1
		}
		switch b := w[p]; {
		case b < 253:
			return uint64(b), p + 1
		case b == 253 && p+3 <= len(w):
			return uint64(w[p+1])<<8 | uint64(w[p+2]), p + 3
		case b == 254 && p+5 <= len(w):
			return uint64(w[p+1])<<24 | uint64(w[p+2])<<16 | uint64(w[p+3])<<8 | uint64(w[p+4]), p + 5
		}
		return 0, -1
	}
	t, p := readVar(0)
	if p < 0 || t != 0x05 {
		return -1
	}
	_, p = readVar(p)
	for p >= 0 && p < len(w) {
		var typ, l uint64
		typ, p = readVar(p)
		if p < 0 {
			return -1
		}
		l, p = readVar(p)
		if p < 0 {
			return -1
		}
		if typ == 0x22 && l == 1 {
			return p
		}
		p += int(l)
	}
	return -1
}

func tokHex(b []byte) string { return hex.EncodeToString(b) }

// cacheCandidate: may a cache answer d (name dn) be given to Interest op at this instant?
func (m *Model) cacheAnswerOK(op Op, dn string, wire []byte) *Violation {
	c, ok := m.cache[dn]
	if !ok && m.refused[dn] {
		return viol("C09", "cache answered Interest %s with Data %s, which only ever arrived on a non-local face and must not have been accepted", op.N, dn)
	}
	if !ok {
		return viol("C07", "cache answered Interest %s with Data %s that was never admitted", op.N, dn)
	}
	if dn != op.N && !(op.CBP && isPrefix(op.N, dn)) {
		return viol("C07", "cache answered Interest %s (CanBePrefix=%v) with non-matching Data %s", op.N, op.CBP, dn)
	}
	if m.cfg.Threads > 1 {
		// one store per forwarding thread: which copies a thread holds depends on the dispatch
		// of each Data; any version admitted under the name may be the most recent one there
		st, ok := c.versions[string(wire)]
		if !ok {
			return viol("C07", "cache answered Interest %s with bytes never received under %s", op.N, dn)
		}
		if op.MBF && !(m.now < st) {
			return viol("C07", "cache answered MustBeFresh Interest %s with Data %s stale since +%dms (now +%dms)", op.N, dn, st/ms, m.now/ms)
		}
		return nil
	}
	if op.MBF && !(m.now < c.staleAt) {
		return viol("C07", "cache answered MustBeFresh Interest %s with Data %s stale since +%dms (now +%dms)", op.N, dn, c.staleAt/ms, m.now/ms)
	}
	if !bytes.Equal(c.wire, wire) {
		return viol("C07", "cache answered Interest %s with bytes that differ from the most recent Data received under %s", op.N, dn)
	}
	return nil
}

// Interest judges the emissions observed for an Interest operation and advances the model.
// wire are the bytes handed to the forwarder.
func (m *Model) Interest(idx int, op Op, wire []byte, em []Emission) *Violation {
	if m.tainted != "" {
		return nil
	}
	f, ok := m.face(op.F)
	if !ok {
		m.tainted = "interest on unknown face"
		return nil
	}
	var ints, datas []Emission
	for _, e := range em {
		if e.Kind == 'I' {
			ints = append(ints, e)
		} else {
			datas = append(datas, e)
		}
	}
	none := func(prop, why string) *Violation {
		if len(ints) > 0 {
			return viol(prop, "Interest #%d %s on face %d %s but was forwarded to face %d", idx, op.N, op.F, why, ints[0].Face)
		}
		return nil
	}
	lh := isLocalhost(op.N)

	// 1. hop limit zero on arrival
	if op.Hop == 1 {
		m.St.NotFwdHop++
		if len(datas) > 0 {
			return viol("C01", "Interest #%d with hop limit 0 was answered with Data on face %d", idx, datas[0].Face)
		}
		return none("C02", "arrived with hop limit 0")
	}
	// 2. /localhost from a non-local face
	if !f.Local && lh {
		m.St.LocalhostInboundRejected++
		if len(em) > 0 {
			return viol("C09", "Interest #%d %s arrived on non-local face %d and caused an emission on face %d", idx, op.N, op.F, em[0].Face)
		}
		return nil
	}
	// 3. no nonce
	if !op.HasNonce {
		m.St.NotFwdNoNonce++
		if len(datas) > 0 {
			// the statements do not say whether a nonce-less Interest may be answered from the cache: only forwarding is forbidden
			for _, d := range datas {
				if d.Face != op.F {
					return viol("C01", "Interest #%d without nonce caused Data on face %d", idx, d.Face)
				}
			}
		}
		return none("C02", "lacks a nonce")
	}
	lookup, hintKey := m.lookupName(op)
	key := pitKey{op.N, op.CBP, op.MBF, hintKey}
	if m.Zombie(key) {
		m.tainted = "interest addressed to a lapsed, possibly unreaped PIT entry"
		return nil
	}
	e := m.pit[key]
	life := lifetimeOf(op)
	if e != nil && e.satisfiedAt >= 0 && len(e.in) == 0 && len(e.out) == 0 {
		m.St.ReusedSatisfied++
	}

	// tokens this face supplied with earlier Interests still recorded in the entry (an answer
	// to a retransmission may echo any of them, as for forwarded Data)
	prevToks := map[string]bool{}
	if e != nil {
		if r, ok := e.in[op.F]; ok {
			for _, t := range r.toks {
				prevToks[t] = true
			}
		}
	}
	// a cache answer: exactly one Data, to the requester, and nothing forwarded
	checkCacheAnswer := func() (*Violation, bool) {
		if len(datas) == 0 {
			return nil, false
		}
		for _, d := range datas {
			if g, ok := m.face(d.Face); ok && isLocalhost(d.Name) && !g.Local {
				return viol("C09", "Interest #%d %s from face %d: cached Data %s sent to non-local face %d", idx, op.N, op.F, d.Name, d.Face), true
			}
		}
		if len(datas) > 1 || datas[0].Face != op.F {
			return viol("C01", "Interest #%d %s from face %d caused Data emissions %s; a cache answer goes to the requesting face alone", idx, op.N, op.F, emString(datas)), true
		}
		if len(ints) > 0 {
			return viol("C02", "Interest #%d %s was answered from the cache and also forwarded to face %d", idx, op.N, ints[0].Face), true
		}
		if !m.cfg.CsServe {
			return viol("C07", "Interest #%d %s answered from the cache although serving is disabled", idx, op.N), true
		}
		d := datas[0]
		dn := d.Name
		if v := m.cacheAnswerOK(op, dn, d.Bytes); v != nil {
			return v, true
		}
		if isLocalhost(dn) && !f.Local {
			return viol("C09", "cached Data %s sent to non-local face %d", dn, op.F), true
		}
		if tokHex(d.Tok) != op.Tok && !prevToks[tokHex(d.Tok)] {
			return viol("C01", "cache answer for Interest #%d on face %d carries PIT token %q, the face supplied %q", idx, op.F, tokHex(d.Tok), op.Tok), true
		}
		m.St.CsHits++
		return nil, true
	}

	// 4. nonce recorded as dead
	if m.DefinitelyDead(op.N, op.Nonce) {
		m.St.NotFwdDead++
		if v := none("C02", fmt.Sprintf("repeats nonce %08x recorded as dead", op.Nonce)); v != nil {
			return v
		}
		if v, _ := checkCacheAnswer(); v != nil {
			return v
		}
		m.maybeRecord(key, op, life)
		return nil
	}
	if m.PossiblyDead(op.N, op.Nonce) {
		m.tainted = "nonce possibly recorded as dead"
		return nil
	}
	// 5. loop: the nonce of an Interest still pending from another face
	if e != nil {
		for g, r := range e.in {
			if g != op.F && r.nonce == op.Nonce {
				if r.maybe || r.exp <= m.now {
					m.tainted = "nonce equals that of a lapsed or uncertain in-record of another face"
					return nil
				}
				m.St.NotFwdLoop++
				if v := none("C02", fmt.Sprintf("repeats nonce %08x still pending from face %d (loop)", op.Nonce, g)); v != nil {
					return v
				}
				if v, _ := checkCacheAnswer(); v != nil {
					return v
				}
				m.maybeRecord(key, op, life)
				return nil
			}
		}
	}

	// 6. accepted: the in-record of this face is set
	if e == nil {
		e = &entry{key: key, in: map[int]*inRec{}, out: map[int]*outRec{}, satisfiedAt: -1, csHitAt: -1}
		m.pit[key] = e
	}
	prev, hadRecord := e.in[op.F]
	sameNonceRetx := hadRecord && !prev.maybe && prev.nonce == op.Nonce
	tokb, _ := hex.DecodeString(op.Tok)
	nr := &inRec{nonce: op.Nonce, tok: tokb, exp: m.now + life, toks: []string{op.Tok}}
	if hadRecord && !prev.maybe {
		if k := deadKey(op.N, prev.nonce); m.early[k] == 0 {
			m.early[k] = m.now + 1 // (+1: zero means unset)
		}
	}
	if hadRecord {
		nr.toks = append(append([]string{}, prev.toks...), op.Tok)
	}
	e.in[op.F] = nr
	if e.satisfiedAt >= 0 {
		e.satisfiedAt = -1 // a new incarnation of a satisfied-and-cleared entry
		e.maxExp = 0
		for t, kk := range m.tok {
			if kk == key {
				delete(m.tok, t)
				m.ambTok[t] = true
			}
		}
	}
	if m.now+life > e.maxExp {
		e.maxExp = m.now + life
	}

	// 6a. answered from the cache?
	if v, answered := checkCacheAnswer(); v != nil {
		return v
	} else if answered {
		delete(e.in, op.F) // consumed
		e.csHitAt = m.now
		if len(e.in) == 0 && len(e.out) == 0 {
			// nothing pending any more: the entry has to be reclaimed promptly (C08)
			e.satisfiedAt = m.now
		}
		return nil
	}
	// required cache hit (C07): serving on, first Interest of this face for the entry, exact name
	// definitely cached and fresh enough
	if m.cfg.CsServe && !hadRecord && !op.CBP && m.cfg.Threads <= 1 { // (each thread has its own store: with several threads the Data may be cached elsewhere)
		if c, ok := m.cache[op.N]; ok && m.distinct <= m.minCap && (!op.MBF || m.now < c.staleAt) {
			return viol("C07", "Interest #%d %s (MustBeFresh=%v) was not answered from the cache although Data %s is cached, unevicted and fresh enough", idx, op.N, op.MBF, op.N)
		}
	}

	// 6b. consumer-chosen next hop
	if op.NextHop != 0 {
		m.St.NextHopUsed++
		g, exists := m.face(op.NextHop)
		for _, x := range ints {
			if x.Face != op.NextHop {
				return viol("C02", "Interest #%d names next hop face %d but was sent on face %d", idx, op.NextHop, x.Face)
			}
		}
		if len(ints) > 1 {
			return viol("C02", "Interest #%d sent %d times on the consumer-chosen face %d", idx, len(ints), op.NextHop)
		}
		if len(ints) == 1 {
			if !exists {
				return viol("C02", "Interest #%d sent on non-existent face %d", idx, op.NextHop)
			}
			if lh && !g.Local {
				m.St.LocalhostNonLocalCandidate++
				return viol("C09", "Interest #%d %s sent on non-local face %d chosen by the consumer", idx, op.N, op.NextHop)
			}
			if op.NextHop == op.F && g.Link == 0 {
				return viol("C02", "Interest #%d sent back out of the point-to-point face %d it arrived on (consumer-chosen next hop)", idx, op.F)
			}
			if !bytes.Equal(ints[0].Bytes, wantInterestBytes(wire)) {
				return viol("C02", "Interest #%d forwarded with altered bytes (only the hop limit may change, by -1)", idx)
			}
			e.viaNextHop = true
			m.St.Forwarded++
		} else if exists && !(lh && !g.Local) && !(op.NextHop == op.F && g.Link != 2) && len(e.out) == 0 && !e.viaNextHop {
			if lh && !g.Local {
				m.St.LocalhostNonLocalCandidate++
			}
			return viol("C02", "first Interest #%d %s names existing next hop face %d but was not forwarded", idx, op.N, op.NextHop)
		}
		if lh && exists && !g.Local {
			m.St.LocalhostNonLocalCandidate++
		}
		return nil
	}

	// 6c. suppression: a different-nonce out-record younger than the suppression interval
	for h, o := range e.out {
		if m.gone[h] {
			continue // forwarded to a face that has since been removed: whether that still suppresses is open
		}
		if o.nonce != op.Nonce && m.now-o.sent < suppression {
			m.St.NotFwdSuppressed++
			return none("C02", fmt.Sprintf("is a different-nonce retransmission %dms after the last forwarding (suppression interval 500ms)", (m.now-o.sent)/ms))
		}
	}

	// 6d. next hops
	if hintKey != "" {
		m.St.HintUsed++
	}
	H := m.lpmHops(lookup)
	hopNowZero := op.Hop == 2 // arrived as 1, now 0
	usable := map[int]uint64{}
	soft := map[int]uint64{}
	softMaybe := map[int]uint64{}
	for h, cost := range H {
		g, exists := m.face(h)
		if !exists {
			if m.gone[h] {
				m.St.HopViaGoneFace++
			}
			continue
		}
		if h == op.F && g.Link == 0 {
			continue // never back out of the point-to-point arrival face
		}
		if lh && !g.Local {
			m.St.LocalhostNonLocalCandidate++
			continue // C09
		}
		usable[h] = cost
		if h == op.F && g.Link != 2 {
			continue // multi-access arrival face: sending back is not required
		}
		if hopNowZero && !g.Local {
			continue
		}
		if r, ok := e.in[h]; ok && h != op.F && r != nil {
			// next hops that are themselves downstreams may be skipped; whether an
			// uncertain record exists at all is open, so that hop may also be used
			if r.maybe {
				softMaybe[h] = cost
			}
			continue
		}
		soft[h] = cost
		softMaybe[h] = cost
	}
	first := len(e.out) == 0 && !e.viaNextHop
	seen := map[int]bool{}
	for _, x := range ints {
		g, exists := m.face(x.Face)
		if _, isHop := H[x.Face]; !isHop || !exists {
			return viol("C02", "Interest #%d %s sent on face %d which is not a next hop of the longest-prefix FIB entry for %s (next hops %v)", idx, op.N, x.Face, lookup, hopsStr(H))
		}
		if lh && !g.Local {
			return viol("C09", "Interest #%d %s sent on non-local face %d", idx, op.N, x.Face)
		}
		if x.Face == op.F && g.Link == 0 {
			return viol("C02", "Interest #%d sent back out of the point-to-point face %d it arrived on", idx, op.F)
		}
		if seen[x.Face] {
			return viol("C02", "Interest #%d sent twice on face %d", idx, x.Face)
		}
		seen[x.Face] = true
		if !bytes.Equal(x.Bytes, wantInterestBytes(wire)) {
			return viol("C02", "Interest #%d forwarded on face %d with altered bytes (only the hop limit may change, by -1)", idx, x.Face)
		}
		if len(x.Tok) == 0 {
			return viol("C01", "Interest #%d forwarded on face %d without a PIT token", idx, x.Face)
		}
	}
	minOf := func(s map[int]uint64) (uint64, bool) {
		ok := false
		var mn uint64
		for _, c := range s {
			if !ok || c < mn {
				mn, ok = c, true
			}
		}
		return mn, ok
	}
	switch m.lpmStrat(op.N) {
	case 0: // best-route
		if len(ints) > 1 {
			return viol("C02", "best-route forwarded Interest #%d on %d faces", idx, len(ints))
		}
		if len(ints) == 1 {
			c := H[ints[0].Face]
			mu, _ := minOf(usable)
			ms2, okS := minOf(soft)
			ms3, okM := minOf(softMaybe)
			if c != mu && !(okS && c == ms2) && !(okM && c == ms3) {
				return viol("C02", "best-route forwarded Interest #%d on face %d at cost %d although a usable next hop of cost %d exists (next hops %v)", idx, ints[0].Face, c, mu, hopsStr(H))
			}
		} else if first && len(soft) > 0 && !sameNonceRetx {
			return viol("C02", "first Interest #%d %s has usable next hop(s) %v but was not forwarded", idx, op.N, hopsStr(soft))
		}
	case 1: // multicast
		if first && !sameNonceRetx {
			for h := range soft {
				if !seen[h] {
					return viol("C02", "multicast did not forward first Interest #%d %s to usable next hop %d (sent to %v, usable %v)", idx, op.N, h, facesOf(ints), hopsStr(soft))
				}
			}
		}
	}
	for _, x := range ints {
		e.out[x.Face] = &outRec{nonce: op.Nonce, sent: m.now, exp: m.now + life}
		m.tok[tokHex(x.Tok)] = key
		delete(m.ambTok, tokHex(x.Tok))
		m.tokOp[idx] = tokHex(x.Tok)
	}
	if len(ints) > 0 {
		m.St.Forwarded++
		if !first {
			m.St.RetxForwarded++
		}
	}
	return nil
}

// maybeRecord: an Interest was dropped by a rule (dead nonce, loop); whether the
// implementation keeps an in-record for it is left open, so later Data may (not must) reach the face.
func (m *Model) maybeRecord(key pitKey, op Op, life int64) {
	e := m.pit[key]
	if e == nil {
		e = &entry{key: key, in: map[int]*inRec{}, out: map[int]*outRec{}, satisfiedAt: -1, csHitAt: -1}
		m.pit[key] = e
	}
	if _, ok := e.in[op.F]; ok {
		return
	}
	tokb, _ := hex.DecodeString(op.Tok)
	e.in[op.F] = &inRec{nonce: op.Nonce, tok: tokb, exp: m.now + life, maybe: true, toks: []string{op.Tok}}
	if m.now+life > e.maxExp {
		e.maxExp = m.now + life
	}
}

// ------------------------------------------------------------------ Data

// ResolveToken gives the concrete token bytes for a Data operation (echo references are
// resolved against the tokens observed so far). ok=false: the reference cannot be resolved.
func (m *Model) ResolveToken(op Op) (tok []byte, ok bool) {
	switch op.TokKind {
	case "", "none":
		return nil, true
	case "echo":
		h, ok := m.tokOp[op.TokRef]
		if !ok {
			return nil, false
		}
		b, _ := hex.DecodeString(h)
		return b, true
	case "mangled":
		// the token the forwarder attached to a forwarded Interest, with the part that names the
		// forwarding thread replaced by a thread that does not exist
		h, ok := m.tokOp[op.TokRef]
		if !ok {
			return nil, false
		}
		b, _ := hex.DecodeString(h)
		if len(b) != 6 {
			return nil, false
		}
		b[0], b[1] = 0x7f, 0xfe
		return b, true
	default:
		b, _ := hex.DecodeString(op.Tok)
		return b, true
	}
}

type dataWant struct{ req, allow int }

func (m *Model) Data(idx int, op Op, wire []byte, tok []byte, em []Emission) *Violation {
	if m.tainted != "" {
		return nil
	}
	f, ok := m.face(op.F)
	if !ok {
		m.tainted = "data on unknown face"
		return nil
	}
	for _, x := range em {
		if x.Kind != 'D' {
			return viol("C02", "Data #%d %s caused an Interest emission on face %d", idx, op.N, x.Face)
		}
	}
	lh := isLocalhost(op.N)
	if !f.Local && lh {
		m.St.LocalhostInboundRejected++
		m.refused[op.N] = true
		if len(em) > 0 {
			return viol("C09", "Data #%d %s arrived on non-local face %d and was emitted on face %d", idx, op.N, op.F, em[0].Face)
		}
		return nil
	}
	if op.TokKind == "mangled" {
		// Not a token this forwarder attached. Whether a six-byte token naming no forwarding thread
		// counts as "in this forwarder's format" (the Data is then dropped: it echoes nothing) or
		// not (the Data is matched by name) is open -- but its name matches no pending Interest,
		// so nobody may receive it either way.
		m.St.MangledToken++
		for k, e := range m.pit {
			if (k.Name == op.N || (k.CBP && isPrefix(k.Name, op.N))) && (len(e.in) > 0 || len(e.out) > 0) {
				m.tainted = "Data with a token naming no forwarding thread also matches a pending Interest by name"
				return nil
			}
		}
		if len(em) > 0 {
			return viol("C01", "Data #%d %s carries token %q, which this forwarder never attached (it names a forwarding thread that does not exist), and matches no pending Interest by name, but was emitted on face %d", idx, op.N, tokHex(tok), em[0].Face)
		}
		if m.cfg.CsAdmit {
			m.tainted = "whether Data with a token naming no forwarding thread is admitted to the cache is open"
		}
		return nil
	}
	// cache admission
	if m.cfg.CsAdmit {
		c, seen := m.cache[op.N]
		if !seen {
			m.distinct++
			m.newNameSinceCap = true
			c = &cached{name: op.N, versions: map[string]int64{}}
			m.cache[op.N] = c
		}
		c.wire = append([]byte{}, wire...)
		c.at = m.now
		c.staleAt = m.now
		if op.Fresh > 0 {
			c.staleAt = m.now + (op.Fresh-1)*ms
		}
		c.everSeen++
		if c.staleAt > c.versions[string(wire)] || c.versions[string(wire)] == 0 {
			c.versions[string(wire)] = c.staleAt
		}
	}
	// matching entries
	var matched []*entry
	if len(tok) == 6 && m.ambTok[tokHex(tok)] {
		m.tainted = "Data echoes a token of an earlier incarnation of a re-used PIT entry"
		return nil
	}
	if len(tok) == 6 {
		if k, ok := m.tok[tokHex(tok)]; ok {
			if e, ok := m.pit[k]; ok {
				matched = append(matched, e)
				m.St.TokenEcho++
			}
		}
	} else {
		for k, e := range m.pit {
			if k.Name == op.N || (k.CBP && isPrefix(k.Name, op.N)) {
				matched = append(matched, e)
			}
		}
	}
	sort.Slice(matched, func(i, j int) bool { return fmt.Sprint(matched[i].key) < fmt.Sprint(matched[j].key) })
	want := map[int]*dataWant{}        // per face: copies required / additionally allowed
	okTok := map[int]map[string]bool{} // per face: tokens one of its pending Interests supplied
	get := func(face int) *dataWant {
		if want[face] == nil {
			want[face] = &dataWant{}
			okTok[face] = map[string]bool{}
		}
		return want[face]
	}
	pendingMatched := 0
	for _, e := range matched {
		if len(e.in) > 0 {
			pendingMatched++
		}
		for g, r := range e.in {
			gs, up := m.face(g)
			if !up {
				m.St.DataForGoneFace++
				continue // the face is gone: nothing can be observed there, nothing is required
			}
			if lh && !gs.Local {
				m.St.LocalhostNonLocalCandidate++
				continue // forbidden (C09); an emission there is reported below
			}
			w := get(g)
			for _, t := range r.toks {
				okTok[g][t] = true
			}
			switch {
			case g == op.F:
				w.allow++
				m.St.AllowedArrivalCopy++
			case r.maybe || r.exp <= m.now:
				w.allow++
				m.St.LapsedAllowed++
			default:
				w.req++
			}
		}
	}
	if pendingMatched >= 2 {
		m.St.MultiMatch++
	}
	got := map[int]int{}
	for _, x := range em {
		if !bytes.Equal(x.Bytes, wire) {
			return viol("C01", "Data #%d %s emitted on face %d with bytes that differ from the arriving Data", idx, op.N, x.Face)
		}
		gs, _ := m.face(x.Face)
		if lh && !gs.Local {
			return viol("C09", "Data #%d %s emitted on non-local face %d", idx, op.N, x.Face)
		}
		w := want[x.Face]
		if w == nil {
			return viol("C01", "Data #%d %s (token %q) emitted on face %d, which holds no pending Interest it satisfies; expected %s", idx, op.N, tokHex(tok), x.Face, wantStr(want))
		}
		if !okTok[x.Face][tokHex(x.Tok)] {
			return viol("C01", "Data #%d %s emitted on face %d with PIT token %q; that face supplied %v", idx, op.N, x.Face, tokHex(x.Tok), keysOf(okTok[x.Face]))
		}
		got[x.Face]++
	}
	for g, n := range got {
		if w := want[g]; n > w.req+w.allow {
			return viol("C01", "Data #%d %s emitted %d times on face %d, which holds %d pending Interest(s) it satisfies", idx, op.N, n, g, w.req+w.allow)
		}
	}
	for g, w := range want {
		if got[g] < w.req {
			return viol("C01", "Data #%d %s (token %q): face %d holds %d unsatisfied pending Interest(s) it satisfies but received %d copy(ies); emitted on %v", idx, op.N, tokHex(tok), g, w.req, got[g], facesOf(em))
		}
	}
	if len(em) > 0 {
		m.St.DataDelivered++
		if lh {
			m.St.LocalhostLocalExchange++
		}
	} else if pendingMatched == 0 {
		if len(matched) > 0 {
			m.St.DupData++
		} else {
			m.St.Unsolicited++
		}
	}
	// consumption. Which nonces get recorded as dead is pinned only for the plain case (one
	// matching entry, Data name equal to the Interest name); otherwise it is left open.
	pendingOrForwarded := len(matched)
	for _, e := range matched {
		if len(e.in) > 0 || len(e.out) > 0 {
			m.St.Satisfied++
		}
		alive := m.certainlyAlive(e) // otherwise the implementation may have reaped the entry long ago
		for _, o := range e.out {
			if e.key.Name == op.N && pendingOrForwarded == 1 && alive {
				m.markDead(e.key.Name, o.nonce, m.now, m.now)
			} else {
				// recorded under the Data name by the implementation: not pinned by the statements
				m.dead[deadKey(e.key.Name, o.nonce)] = deadRec{m.now + 1<<60, m.now + m.cfg.DnlMs*ms}
			}
		}
		e.in = map[int]*inRec{}
		e.out = map[int]*outRec{}
		e.satisfiedAt = m.now
		e.viaNextHop = false
	}
	return nil
}

// ------------------------------------------------------------------ printing helpers

func emString(em []Emission) string {
	var sb strings.Builder
	for _, e := range em {
		fmt.Fprintf(&sb, "[%c face %d tok %s] ", e.Kind, e.Face, tokHex(e.Tok))
	}
	return sb.String()
}

func facesOf(em []Emission) []int {
	var out []int
	for _, e := range em {
		out = append(out, e.Face)
	}
	sort.Ints(out)
	return out
}

func hopsStr(h map[int]uint64) string {
	fs := make([]int, 0, len(h))
	for f := range h {
		fs = append(fs, f)
	}
	sort.Ints(fs)
	var sb strings.Builder
	for _, f := range fs {
		fmt.Fprintf(&sb, "%d@%d ", f, h[f])
	}
	return "{" + strings.TrimSpace(sb.String()) + "}"
}

func wantStr(w map[int]*dataWant) string {
	ks := make([]int, 0, len(w))
	for k := range w {
		ks = append(ks, k)
	}
	sort.Ints(ks)
	var sb strings.Builder
	for _, k := range ks {
		fmt.Fprintf(&sb, "face %d:req%d+allow%d ", k, w[k].req, w[k].allow)
	}
	return "{" + strings.TrimSpace(sb.String()) + "}"
}

func keysOf(m map[string]bool) []string {
	ks := make([]string, 0, len(m))
	for k := range m {
		ks = append(ks, fmt.Sprintf("%q", k))
	}
	sort.Strings(ks)
	return ks
}

func (m *Model) pitString() string {
	ks := make([]string, 0, len(m.pit))
	for k, e := range m.pit {
		ks = append(ks, fmt.Sprintf("%s cbp=%v mbf=%v hint=%q in=%d out=%d latestIn=+%dms maxExp=+%dms satisfiedAt=%d", k.Name, k.CBP, k.MBF, k.Hint, len(e.in), len(e.out), e.latestInExp(true)/ms, e.maxExp/ms, e.satisfiedAt/ms))
	}
	sort.Strings(ks)
	return strings.Join(ks, "; ")
}
