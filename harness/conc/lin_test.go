package conc

import (
	"fmt"
	"os"
	"sort"
	"strconv"
	"strings"
	"time"

	"github.com/anishathalye/porcupine"

	"verif/harness/internal/evid"
)

// ---------------------------------------------------------------------------- sequential reference models

// FIB next hops (reference of C05): prefix -> face -> cost; lookup = longest prefix with hops.

func lpmFib(s *fibT, q int) hopsT {
	for _, p := range qChain[q] {
		if s[p] != (hopsT{}) {
			return s[p]
		}
	}
	return hopsT{}
}

func fibStep(st, in, out interface{}) (bool, interface{}) {
	s := st.(fibT)
	op := in.(Op)
	switch op.K {
	case "ins":
		s[pIndex[op.N]][op.F] = int8(op.C) + 1
	case "rm":
		s[pIndex[op.N]][op.F] = 0
	case "clr":
		s[pIndex[op.N]] = hopsT{}
	case "find":
		return lpmFib(&s, qIndex[op.N]) == out.(obs).Hops, st
	case "list":
		return s == out.(obs).Fib, st
	default:
		panic("fibStep: " + op.K)
	}
	return true, s
}

// strategy choice: prefix -> strategy; lookup = longest prefix with a strategy.

func lpmStrat(s *stratT, q int) int8 {
	for _, p := range qChain[q] {
		if s[p] != 0 {
			return s[p]
		}
	}
	return 0
}

func stratStep(st, in, out interface{}) (bool, interface{}) {
	s := st.(stratT)
	op := in.(Op)
	switch op.K {
	case "set":
		s[pIndex[op.N]] = int8(op.S + 1)
	case "unset":
		s[pIndex[op.N]] = 0
	case "strat":
		return lpmStrat(&s, qIndex[op.N]) == out.(obs).Strat, st
	case "lstrat":
		return s == out.(obs).Strats, st
	default:
		panic("stratStep: " + op.K)
	}
	return true, s
}

// RIB (reference of C06): multiset of routes; the FIB is its flattening.

func hasRoutes(s *ribT, p int) bool {
	for f := 1; f <= NF; f++ {
		for o := 0; o < NO; o++ {
			if s[p][f][o].Cost != 0 {
				return true
			}
		}
	}
	return false
}

func hasCapture(s *ribT, p int) bool {
	for f := 1; f <= NF; f++ {
		for o := 0; o < NO; o++ {
			if r := s[p][f][o]; r.Cost != 0 && r.Flags&2 != 0 {
				return true
			}
		}
	}
	return false
}

// flatten: own routes plus child-inherit routes of shorter prefixes, walking up and stopping
// at - and including - the nearest prefix (p itself included) that holds a capture route; per
// face the minimum cost.
func flatten(s *ribT, p int) hopsT {
	var out hopsT
	add := func(f int, r routeT) {
		if r.Cost != 0 && (out[f] == 0 || r.Cost < out[f]) {
			out[f] = r.Cost
		}
	}
	for f := 1; f <= NF; f++ {
		for o := 0; o < NO; o++ {
			add(f, s[p][f][o])
		}
	}
	if hasCapture(s, p) {
		return out
	}
	for _, a := range pAnc[p] {
		for f := 1; f <= NF; f++ {
			for o := 0; o < NO; o++ {
				if r := s[a][f][o]; r.Flags&1 != 0 {
					add(f, r)
				}
			}
		}
		if hasCapture(s, a) {
			break
		}
	}
	return out
}

func lpmRib(s *ribT, q int) hopsT {
	for _, p := range qChain[q] {
		if hasRoutes(s, p) {
			return flatten(s, p)
		}
	}
	return hopsT{}
}

func ribFib(s *ribT) fibT {
	var out fibT
	for p := 0; p < NP; p++ {
		if hasRoutes(s, p) {
			out[p] = flatten(s, p)
		}
	}
	return out
}

func ribApply(s *ribT, op Op) {
	switch op.K {
	case "add":
		s[pIndex[op.N]][op.F][originX[op.O]] = routeT{int8(op.C) + 1, int8(op.Fl)}
	case "rmr":
		s[pIndex[op.N]][op.F][originX[op.O]] = routeT{}
	case "down":
		for p := 0; p < NP; p++ {
			for o := 0; o < NO; o++ {
				s[p][op.F][o] = routeT{}
			}
		}
	default:
		panic("ribApply: " + op.K)
	}
}

func ribStep(st, in, out interface{}) (bool, interface{}) {
	s := st.(ribT)
	op := in.(Op)
	switch op.K {
	case "add", "rmr", "down":
		ribApply(&s, op)
		return true, s
	case "find":
		return lpmRib(&s, qIndex[op.N]) == out.(obs).Hops, st
	case "list":
		return ribFib(&s) == out.(obs).Fib, st
	case "riblist":
		return s == *out.(obs).Rib, st
	}
	panic("ribStep: " + op.K)
}

// ---------------------------------------------------------------------------- partitioning

// keysOf names the parts of the state (universe prefixes) an operation writes or reads.
func keysOf(op Op) []int {
	switch op.K {
	case "ins", "rm", "clr", "set", "unset", "add", "rmr":
		return []int{pIndex[op.N]}
	case "find", "strat":
		return qChain[qIndex[op.N]]
	}
	return allP // listings and face teardown touch every prefix
}

var allP = func() []int {
	a := make([]int, NP)
	for i := range a {
		a[i] = i
	}
	return a
}()

// partition splits a history into sub-histories over disjoint parts of the state: two
// operations are connected when they touch a common prefix that some operation of the
// history writes. Prefixes nobody writes are constant, so reading them connects nothing.
func partition(recs []rec) [][]rec {
	written := [NP]bool{}
	for _, r := range recs {
		if isWriter(r.Op.K) {
			for _, k := range keysOf(r.Op) {
				written[k] = true
			}
		}
	}
	parent := [NP]int{}
	for i := range parent {
		parent[i] = i
	}
	var find func(int) int
	find = func(x int) int {
		if parent[x] != x {
			parent[x] = find(parent[x])
		}
		return parent[x]
	}
	for _, r := range recs {
		first := -1
		for _, k := range keysOf(r.Op) {
			if !written[k] {
				continue
			}
			if first < 0 {
				first = k
			} else {
				parent[find(k)] = find(first)
			}
		}
	}
	groups := map[int][]rec{}
	var order []int
	for _, r := range recs {
		g := -1 - len(order) // reads of constant state only: a partition of their own
		for _, k := range keysOf(r.Op) {
			if written[k] {
				g = find(k)
				break
			}
		}
		if _, ok := groups[g]; !ok {
			order = append(order, g)
		}
		groups[g] = append(groups[g], r)
	}
	out := make([][]rec, 0, len(order))
	for _, g := range order {
		out = append(out, groups[g])
	}
	return out
}

// ---------------------------------------------------------------------------- porcupine driver

type linStats struct {
	checked, unknown, ops int
}

func linTimeout() time.Duration {
	if s := os.Getenv("VERIF_C16_LIN_TIMEOUT_MS"); s != "" {
		if n, err := strconv.Atoi(s); err == nil && n > 0 {
			return time.Duration(n) * time.Millisecond
		}
	}
	if evid.Thorough() {
		return 3 * time.Second
	}
	return 1500 * time.Millisecond
}

// checkLinearizable checks every partition of recs against the model starting at init. A
// lookup may return the answer of any state between the operations that overlap it; a
// porcupine timeout is "unknown", never a violation.
func checkLinearizable(what string, recs []rec, init interface{}, step func(st, in, out interface{}) (bool, interface{}), st *linStats) error {
	for _, part := range partition(recs) {
		ops := make([]porcupine.Operation, len(part))
		for i, r := range part {
			ops[i] = porcupine.Operation{ClientId: r.G, Input: r.Op, Call: r.Call, Output: r.Out, Return: r.Ret}
		}
		model := porcupine.Model{Init: func() interface{} { return init }, Step: step}
		res, info := porcupine.CheckOperationsVerbose(model, ops, linTimeout())
		st.checked++
		st.ops += len(ops)
		switch res {
		case porcupine.Unknown:
			st.unknown++
		case porcupine.Illegal:
			return fmt.Errorf("%s history is not linearizable: no sequential order of these operations that respects their real-time order explains the answers\n%s", what, explainIllegal(part, info))
		}
	}
	return nil
}

// explainIllegal prints the failing partition in invocation order around the first operation
// that the longest partial linearization could not place ('!'), and names that operation.
func explainIllegal(part []rec, info porcupine.LinearizationInfo) string {
	placed := map[int]bool{}
	if pl := info.PartialLinearizations(); len(pl) > 0 {
		best := []int(nil)
		for _, l := range pl[0] {
			if len(l) > len(best) {
				best = l
			}
		}
		for _, id := range best {
			placed[id] = true
		}
	}
	idx := make([]int, len(part))
	for i := range idx {
		idx[i] = i
	}
	sort.SliceStable(idx, func(a, b int) bool { return part[idx[a]].Call < part[idx[b]].Call })
	firstBad := len(idx)
	for k, i := range idx {
		if !placed[i] {
			firstBad = k
			break
		}
	}
	lo, hi := firstBad-25, firstBad+12
	if lo < 0 {
		lo = 0
	}
	if hi > len(idx) {
		hi = len(idx)
	}
	var sb strings.Builder
	if lo > 0 {
		fmt.Fprintf(&sb, "      ... %d earlier operations of this partition omitted ...\n", lo)
	}
	for k := lo; k < hi; k++ {
		i := idx[k]
		mark := "   "
		if !placed[i] {
			mark = " ! "
		}
		sb.WriteString("   " + mark + part[i].String() + "\n")
	}
	if hi < len(idx) {
		fmt.Fprintf(&sb, "      ... %d later operations omitted ...\n", len(idx)-hi)
	}
	sb.WriteString("    ('!' = not in the longest linearizable prefix; [call,return] are ticks of one global atomic counter; g" + fmt.Sprint(finalG) + " = the harness reading the final state)\n")
	if firstBad < len(idx) {
		r := part[idx[firstBad]]
		var live []string
		for _, i := range idx {
			o := part[i]
			if isWriter(o.Op.K) && o.Call < r.Ret && r.Call < o.Ret {
				live = append(live, fmt.Sprintf("g%d#%d %s", o.G, o.I, o.Op))
			}
		}
		fmt.Fprintf(&sb, "    first operation that cannot be placed: %s; writers overlapping it: %s\n", r, strings.Join(live, "; "))
	}
	return sb.String()
}

// finalG is the pseudo goroutine id of the final reads appended after the program finished.
const finalG = 99
