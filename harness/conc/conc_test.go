// Package conc decides C16 (shared tables tolerate concurrent updates, teardown and lookups).
//
// A case is a *program*: plain data describing a sequential prelude and 2..16 goroutines with
// up to 25 table operations each. exec runs the program R times against fresh tables with real
// goroutines released by a barrier, under the race detector (the unit is built with -race and
// run with GORACE=halt_on_error=1), with GOMAXPROCS varied and runtime.Gosched() injected at
// the positions the case names. See NOTES.md for the oracles and their tolerances.
package conc

import (
	"bytes"
	"fmt"
	"os"
	"runtime"
	"runtime/pprof"
	"sort"
	"strconv"
	"strings"
	"sync"
	"sync/atomic"
	"time"

	"github.com/named-data/ndnd/fw/core"
	"github.com/named-data/ndnd/fw/face"
	"github.com/named-data/ndnd/fw/mgmt"
	"github.com/named-data/ndnd/fw/table"
	enc "github.com/named-data/ndnd/std/encoding"
	"github.com/named-data/ndnd/std/log"

	"verif/harness/internal/evid"
)

func init() { log.SetLevel(log.FatalLevel) }

// ---------------------------------------------------------------------------- universe

// prefixes that operations update (index = position)
var uniP = []string{"/", "/a", "/a/b", "/a/b/c", "/a/d", "/e"}

// names that lookups ask for: every prefix plus names below them (shorter than, equal to and
// longer than the hash table's m in 1..3) and one name that matches nothing but the root
var uniQ = []string{"/", "/a", "/a/b", "/a/b/c", "/a/d", "/e",
	"/a/b/c/x/y", "/a/b/x", "/a/x", "/a/d/x/y", "/e/x", "/z"}

const (
	NP = 6 // len(uniP)
	NQ = 12
	NF = 4 // faces 1..NF
	NO = 2 // route origins
)

var origins = [NO]uint64{0, 65}

var strategies = []string{
	"/localhost/nfd/strategy/best-route/v=1",
	"/localhost/nfd/strategy/multicast/v=1",
	"/s/x/v=7",
}

var (
	pIndex  = map[string]int{}
	qIndex  = map[string]int{}
	pNames  [NP]enc.Name
	qNames  [NQ]enc.Name
	sNames  []enc.Name
	sIndex  = map[string]int{}
	qChain  [NQ][]int // universe prefixes that are prefixes of the query, longest first
	pAnc    [NP][]int // proper ancestors of a universe prefix inside the universe, nearest first
	pDesc   [NP][]int // proper descendants inside the universe
	originX = map[uint64]int{}
)

func comps(s string) []string {
	if s == "/" || s == "" {
		return nil
	}
	return strings.Split(strings.TrimPrefix(s, "/"), "/")
}

func isPrefix(p, n string) bool {
	pc, nc := comps(p), comps(n)
	if len(pc) > len(nc) {
		return false
	}
	for i := range pc {
		if pc[i] != nc[i] {
			return false
		}
	}
	return true
}

func mustName(s string) enc.Name {
	n, err := enc.NameFromStr(s)
	if err != nil {
		panic(err)
	}
	return n
}

func init() {
	if len(uniP) != NP || len(uniQ) != NQ {
		panic("universe size")
	}
	for i, s := range uniP {
		pIndex[s] = i
		pNames[i] = mustName(s)
	}
	for i, s := range uniQ {
		qIndex[s] = i
		qNames[i] = mustName(s)
		var ch []int
		for j, p := range uniP {
			if isPrefix(p, s) {
				ch = append(ch, j)
			}
		}
		sort.Slice(ch, func(a, b int) bool { return len(comps(uniP[ch[a]])) > len(comps(uniP[ch[b]])) })
		qChain[i] = ch
	}
	for i, p := range uniP {
		for j, a := range uniP {
			if i != j && isPrefix(a, p) {
				pAnc[i] = append(pAnc[i], j)
			}
			if i != j && isPrefix(p, a) {
				pDesc[i] = append(pDesc[i], j)
			}
		}
		a := pAnc[i]
		sort.Slice(a, func(x, y int) bool { return len(comps(uniP[a[x]])) > len(comps(uniP[a[y]])) })
	}
	for i, s := range strategies {
		sNames = append(sNames, mustName(s))
		sIndex[s] = i
	}
	for i, o := range origins {
		originX[o] = i
	}
}

// ---------------------------------------------------------------------------- case

// Op is one table operation. N is a universe prefix for updates and a query name for lookups.
type Op struct {
	K  string `json:"k"` // ins rm clr set unset | add rmr down | find strat list lstrat riblist
	N  string `json:"n,omitempty"`
	F  uint64 `json:"f,omitempty"`
	C  uint64 `json:"c,omitempty"`
	O  uint64 `json:"o,omitempty"`
	Fl uint64 `json:"fl,omitempty"`
	S  int    `json:"s,omitempty"`
	Y  bool   `json:"y,omitempty"` // runtime.Gosched() immediately before the operation
}

func (o Op) String() string {
	switch o.K {
	case "ins":
		return fmt.Sprintf("InsertNextHop(%s,face %d,cost %d)", o.N, o.F, o.C)
	case "rm":
		return fmt.Sprintf("RemoveNextHop(%s,face %d)", o.N, o.F)
	case "clr":
		return fmt.Sprintf("ClearNextHops(%s)", o.N)
	case "set":
		return fmt.Sprintf("SetStrategy(%s,%s)", o.N, strategies[o.S])
	case "unset":
		return fmt.Sprintf("UnSetStrategy(%s)", o.N)
	case "add":
		return fmt.Sprintf("Rib.AddRoute(%s,face %d,origin %d,cost %d,flags %d)", o.N, o.F, o.O, o.C, o.Fl)
	case "rmr":
		return fmt.Sprintf("Rib.RemoveRoute(%s,face %d,origin %d)", o.N, o.F, o.O)
	case "down":
		return fmt.Sprintf("FaceTable.Remove(%d)", o.F)
	case "find":
		return fmt.Sprintf("FindNextHops(%s)", o.N)
	case "strat":
		return fmt.Sprintf("FindStrategy(%s)", o.N)
	case "list":
		return "GetAllFIBEntries()"
	case "lstrat":
		return "GetAllForwardingStrategies()"
	case "riblist":
		return "Rib.GetAllEntries()"
	}
	return o.K
}

func isWriter(k string) bool {
	switch k {
	case "ins", "rm", "clr", "set", "unset", "add", "rmr", "down":
		return true
	}
	return false
}

// Case is a concurrent program.
type Case struct {
	Algo  string `json:"algo"`
	M     int    `json:"m"`
	Init  []Op   `json:"init"`  // applied sequentially before the goroutines are released
	G     [][]Op `json:"g"`     // one list per goroutine
	Procs []int  `json:"procs"` // GOMAXPROCS of repetition r is Procs[(r/2) % len] (r % len in TestC16Mixed)
}

// ---------------------------------------------------------------------------- observations

type hopsT [NF + 1]int8 // index = face id, value = cost+1, 0 = absent (costs are <= maxCost)
type fibT [NP]hopsT
type stratT [NP]int8 // 0 = none, else strategy index + 1

type routeT struct {
	Cost  int8 // cost+1, 0 = absent
	Flags int8
}

const maxCost = 100 // every cost the generators use is far below
type ribT [NP][NF + 1][NO]routeT

func (h hopsT) String() string {
	var sb strings.Builder
	sb.WriteString("{")
	for f := 1; f <= NF; f++ {
		if h[f] != 0 {
			fmt.Fprintf(&sb, " %d@%d", f, h[f]-1)
		}
	}
	sb.WriteString(" }")
	return sb.String()
}

func (t fibT) String() string {
	var sb strings.Builder
	sb.WriteString("[")
	for p := 0; p < NP; p++ {
		if t[p] != (hopsT{}) {
			fmt.Fprintf(&sb, " %s=%s", uniP[p], t[p])
		}
	}
	sb.WriteString(" ]")
	return sb.String()
}

func (t stratT) String() string {
	var sb strings.Builder
	sb.WriteString("[")
	for p := 0; p < NP; p++ {
		if t[p] != 0 {
			fmt.Fprintf(&sb, " %s=%s", uniP[p], strategies[t[p]-1])
		}
	}
	sb.WriteString(" ]")
	return sb.String()
}

func (t ribT) String() string {
	var sb strings.Builder
	sb.WriteString("[")
	for p := 0; p < NP; p++ {
		for f := 1; f <= NF; f++ {
			for o := 0; o < NO; o++ {
				if r := t[p][f][o]; r.Cost != 0 {
					fmt.Fprintf(&sb, " %s:face%d/origin%d/cost%d/flags%d", uniP[p], f, origins[o], r.Cost-1, r.Flags)
				}
			}
		}
	}
	sb.WriteString(" ]")
	return sb.String()
}

// obs is what one operation returned, converted to plain values at once.
type obs struct {
	Hops   hopsT
	Fib    fibT
	Strat  int8
	Strats stratT
	Rib    *ribT
	Bad    string // malformed answer: nil / duplicated / foreign element
}

func (o obs) describe(k string) string {
	if o.Bad != "" {
		return "MALFORMED: " + o.Bad
	}
	switch k {
	case "find":
		return o.Hops.String()
	case "list":
		return o.Fib.String()
	case "strat":
		if o.Strat == 0 {
			return "nil"
		}
		return strategies[o.Strat-1]
	case "lstrat":
		return o.Strats.String()
	case "riblist":
		return o.Rib.String()
	}
	return "-"
}

// readHops consumes a next-hop list the way a forwarding thread does (fw/fw/thread.go
// builds a filtered copy of the pointers, best-route sorts that copy by Cost and reads Nexthop).
func readHops(nh []*table.FibNextHopEntry) (hopsT, string) {
	var out hopsT
	allowed := make([]*table.FibNextHopEntry, 0, len(nh))
	for _, h := range nh {
		if h == nil {
			return out, "nil next-hop entry in the returned list"
		}
		allowed = append(allowed, h)
	}
	sort.Slice(allowed, func(i, j int) bool { return allowed[i].Cost < allowed[j].Cost })
	for _, h := range allowed {
		f, c := h.Nexthop, h.Cost
		if f < 1 || f > NF {
			return out, fmt.Sprintf("next hop with face id %d which no operation ever used", f)
		}
		if out[f] != 0 {
			return out, fmt.Sprintf("face %d listed twice in one next-hop list", f)
		}
		if c > maxCost {
			return out, fmt.Sprintf("face %d with cost %d which no operation ever used", f, c)
		}
		out[f] = int8(c) + 1
	}
	return out, ""
}

func stratIndex(n enc.Name) (int8, string) {
	if n == nil {
		return 0, ""
	}
	s := n.String()
	i, ok := sIndex[s]
	if !ok {
		return 0, "strategy " + s + " which no operation ever set"
	}
	return int8(i + 1), ""
}

// ---------------------------------------------------------------------------- executing one operation

type tables struct {
	fib table.FibStrategy
}

// do executes one operation against the real tables. Names are fresh clones per call (the
// hash-table FIB keeps the caller's slice).
func (tb *tables) do(op Op) (o obs) {
	switch op.K {
	case "ins":
		tb.fib.InsertNextHopEnc(pNames[pIndex[op.N]].Clone(), op.F, op.C)
	case "rm":
		tb.fib.RemoveNextHopEnc(pNames[pIndex[op.N]].Clone(), op.F)
	case "clr":
		tb.fib.ClearNextHopsEnc(pNames[pIndex[op.N]].Clone())
	case "set":
		tb.fib.SetStrategyEnc(pNames[pIndex[op.N]].Clone(), sNames[op.S].Clone())
	case "unset":
		tb.fib.UnSetStrategyEnc(pNames[pIndex[op.N]].Clone())
	case "add":
		table.Rib.AddEncRoute(pNames[pIndex[op.N]].Clone(), &table.Route{FaceID: op.F, Origin: op.O, Cost: op.C, Flags: op.Fl})
	case "rmr":
		table.Rib.RemoveRouteEnc(pNames[pIndex[op.N]].Clone(), op.F, op.O)
	case "down":
		// the real teardown path: face table -> dispatch -> Rib.CleanUpFace (runs on the face's goroutine)
		face.FaceTable.Remove(op.F)
	case "find":
		o.Hops, o.Bad = readHops(tb.fib.FindNextHopsEnc(qNames[qIndex[op.N]].Clone()))
	case "strat":
		o.Strat, o.Bad = stratIndex(tb.fib.FindStrategyEnc(qNames[qIndex[op.N]].Clone()))
		if o.Bad == "" && o.Strat == 0 {
			o.Bad = "FindStrategy returned no strategy although the root always has one"
		}
	case "list":
		seen := [NP]bool{}
		for _, e := range tb.fib.GetAllFIBEntries() {
			n := e.Name().String()
			p, ok := pIndex[n]
			if !ok {
				o.Bad = "FIB listing has entry " + n + " which no operation ever touched"
				return
			}
			if seen[p] {
				o.Bad = "FIB listing has " + n + " twice"
				return
			}
			seen[p] = true
			o.Fib[p], o.Bad = readHops(e.GetNextHops())
			if o.Bad != "" {
				o.Bad = "FIB listing " + n + ": " + o.Bad
				return
			}
		}
	case "lstrat":
		seen := [NP]bool{}
		for _, e := range tb.fib.GetAllForwardingStrategies() {
			n := e.Name().String()
			p, ok := pIndex[n]
			if !ok {
				o.Bad = "strategy listing has entry " + n + " which no operation ever touched"
				return
			}
			if seen[p] {
				o.Bad = "strategy listing has " + n + " twice"
				return
			}
			seen[p] = true
			o.Strats[p], o.Bad = stratIndex(e.GetStrategy())
			if o.Bad != "" {
				return
			}
		}
	case "riblist":
		o.Rib = new(ribT)
		seen := [NP]bool{}
		for _, e := range table.Rib.GetAllEntries() {
			n := e.Name.String()
			p, ok := pIndex[n]
			if !ok {
				o.Bad = "RIB listing has entry " + n + " which no operation ever touched"
				return
			}
			if seen[p] {
				o.Bad = "RIB listing has " + n + " twice"
				return
			}
			seen[p] = true
			for _, r := range e.GetRoutes() {
				if r == nil {
					o.Bad = "RIB listing " + n + ": nil route"
					return
				}
				f, og, c, fl := r.FaceID, r.Origin, r.Cost, r.Flags
				ox, ok := originX[og]
				if f < 1 || f > NF || !ok || c > maxCost || fl > 3 {
					o.Bad = fmt.Sprintf("RIB listing %s: route face %d origin %d cost %d flags %d which no operation ever registered", n, f, og, c, fl)
					return
				}
				if o.Rib[p][f][ox].Cost != 0 {
					o.Bad = fmt.Sprintf("RIB listing %s: route face %d origin %d listed twice", n, f, og)
					return
				}
				o.Rib[p][f][ox] = routeT{int8(c) + 1, int8(fl)}
			}
		}
	default:
		panic("unknown op kind " + op.K)
	}
	return
}

// nopReadvertiser reads what fw/mgmt/nlsr_readvertiser.go reads (the name and the route's
// origin and cost) and keeps nothing, so that it adds no synchronisation of its own.
type nopReadvertiser struct{}

func (nopReadvertiser) Announce(name enc.Name, route *table.Route) {
	_ = name.Hash() + route.Origin + route.Cost
}
func (nopReadvertiser) Withdraw(name enc.Name, route *table.Route) { _ = name.Hash() + route.Origin }

// validate rejects hand-written cases outside the universe the models are built for.
func validate(c Case) {
	chk := func(op Op) {
		bad := false
		switch op.K {
		case "ins", "rm", "clr", "set", "unset", "add", "rmr":
			_, ok := pIndex[op.N]
			bad = !ok
		case "find", "strat":
			_, ok := qIndex[op.N]
			bad = !ok
		case "down", "list", "lstrat", "riblist":
		default:
			bad = true
		}
		switch op.K {
		case "ins", "rm", "add", "rmr", "down":
			bad = bad || op.F < 1 || op.F > NF
		}
		if _, ok := originX[op.O]; !ok || op.C > maxCost || op.Fl > 3 || op.S < 0 || op.S >= len(strategies) || (op.K == "unset" && op.N == "/") {
			bad = true
		}
		if bad {
			panic(fmt.Sprintf("invalid case: operation %+v is outside the universe of this check", op))
		}
	}
	for _, op := range c.Init {
		chk(op)
	}
	for _, g := range c.G {
		for _, op := range g {
			chk(op)
		}
	}
	if len(c.Procs) == 0 || len(c.G) == 0 || (c.Algo != "nametree" && c.Algo != "hashtable") || c.M < 1 {
		panic("invalid case: algo/m/procs/goroutines")
	}
}

func setupTables(c Case) *tables {
	cfg := core.DefaultConfig()
	cfg.Tables.Fib.Hashtable.M = uint16(c.M)
	cfg.Tables.Fib.Algorithm = c.Algo
	// the real NLSR readvertiser (fw/mgmt/nlsr_readvertiser.go, an anchor of C16) is called by
	// the RIB, under the RIB's mutex, for every route of client origin: it is registered by
	// MakeMgmtThread when the configuration enables it. The management thread is not run; the
	// register/unregister Interests the readvertiser emits are drained from an unstarted
	// internal transport. (Seeded defect C16-r3-1, a mutex not released on one path of
	// Withdraw, was invisible to the stand-in used before.)
	cfg.Tables.Rib.ReadvertiseNlsr = true
	core.LoadConfig(cfg, "")
	table.VerifReset()
	tr := face.MakeInternalTransport()
	mgmt.VerifMakeThread(tr)
	table.AddReadvertiser(nopReadvertiser{})
	currentInternal.Store(tr)
	drainOnce.Do(func() {
		go func() {
			for {
				if t := currentInternal.Load(); t != nil {
					t.VerifTakeSent()
				}
				time.Sleep(200 * time.Microsecond)
			}
		}()
	})
	table.CreateFIBTable(c.Algo)
	return &tables{fib: table.FibStrategyTable}
}

var (
	currentInternal atomic.Pointer[face.InternalTransport]
	drainOnce       sync.Once
)

// ---------------------------------------------------------------------------- running a program once

// rec is one executed operation of the concurrent part.
type rec struct {
	G, I      int
	Op        Op
	Call, Ret int64 // global atomic clock (history mode only)
	Out       obs
	Panic     string
}

func (r rec) String() string {
	s := fmt.Sprintf("g%d#%d [%d,%d] %s", r.G, r.I, r.Call, r.Ret, r.Op)
	if !isWriter(r.Op.K) {
		s += " -> " + r.Out.describe(r.Op.K)
	}
	if r.Panic != "" {
		s += " PANIC " + r.Panic
	}
	return s
}

// watchdog bounds one run of a program (normally a few milliseconds); exceeding it is reported
// as deadlock. VERIF_C16_WATCHDOG_S shortens it for mutation testing.
var watchdog = func() time.Duration {
	if s := os.Getenv("VERIF_C16_WATCHDOG_S"); s != "" {
		if n, err := strconv.Atoi(s); err == nil && n > 0 {
			return time.Duration(n) * time.Second
		}
	}
	return 90 * time.Second
}()

// runOnce releases the goroutines of the program against tb. With hist the invocation and
// response of every operation are stamped from one global atomic counter (needed by the
// linearizability oracle). The counter is itself a synchronisation the race detector sees:
// it orders operations that do not overlap, and so hides races between them; therefore every
// other repetition runs without it (race mode), where the goroutines share nothing but the
// start barrier and the tables.
func runOnce(c Case, tb *tables, hist bool, procs int) (recs []rec, clockEnd int64, err error) {
	prev := runtime.GOMAXPROCS(procs)
	defer runtime.GOMAXPROCS(prev)
	r := &run{c: c, tb: tb, hist: hist, start: make(chan struct{}), per: make([][]rec, len(c.G))}
	for gi := range c.G {
		r.wg.Add(1)
		gi := gi
		spawn <- func() { r.worker(gi) }
	}
	done := make(chan struct{})
	spawn <- func() { r.wg.Wait(); close(done) }
	close(r.start)
	select {
	case <-done:
	case <-time.After(watchdog):
		var buf bytes.Buffer
		_ = pprof.Lookup("goroutine").WriteTo(&buf, 1)
		s := buf.String()
		if len(s) > 20000 {
			s = s[:20000]
		}
		// The stuck goroutines cannot be killed and would disturb every later case of this
		// process (they hold locks and touch the package-level tables), so a deadlock ends
		// the process like a crash does: the driver attributes the death to the in-flight
		// case and re-runs that case in a fresh process to confirm it.
		fmt.Printf("goroutines:\n%s\nprogram:\n%s\nC16 DEADLOCK: the goroutines of the program above did not finish within %v (history mode=%v, GOMAXPROCS=%d); stacks of the blocked goroutines are printed before the program\n", s, programText(c), watchdog, hist, procs)
		os.Exit(97)
	}
	for _, l := range r.per {
		recs = append(recs, l...)
	}
	return recs, r.clock.Load(), nil
}

// spawn starts goroutines from a long-lived goroutine with a two-frame stack, so that the
// "Goroutine N created at:" part of a race report is short and the report's head (the two
// racing call sites) stays within what the driver prints. The channel hand-over keeps the
// happens-before edge from the set-up code to the workers.
var spawn = func() chan func() {
	ch := make(chan func())
	go func() {
		for f := range ch {
			go f()
		}
	}()
	return ch
}()

type run struct {
	c     Case
	tb    *tables
	hist  bool
	clock atomic.Int64
	wg    sync.WaitGroup
	start chan struct{}
	per   [][]rec
}

func (r *run) worker(gi int) {
	defer r.wg.Done()
	ops := r.c.G[gi]
	local := make([]rec, 0, len(ops))
	defer func() { r.per[gi] = local }()
	<-r.start
	for i, op := range ops {
		if op.Y {
			runtime.Gosched()
		}
		e := rec{G: gi, I: i, Op: op}
		if r.hist {
			e.Call = r.clock.Add(1)
		}
		e.Out, e.Panic = r.tb.safeDo(op)
		if r.hist {
			e.Ret = r.clock.Add(1)
		}
		local = append(local, e)
	}
}

// safeDo turns a recoverable panic of the code under test into a recorded result.
func (tb *tables) safeDo(op Op) (o obs, panicked string) {
	defer func() {
		if p := recover(); p != nil {
			panicked = fmt.Sprint(p)
		}
	}()
	return tb.do(op), ""
}

// ---------------------------------------------------------------------------- helpers shared by the units

func reps() int {
	if s := os.Getenv("VERIF_C16_REPS"); s != "" {
		if n, err := strconv.Atoi(s); err == nil && n > 0 {
			return n
		}
	}
	if evid.Thorough() {
		return 200
	}
	return 20
}

func programText(c Case) string {
	var sb strings.Builder
	fmt.Fprintf(&sb, "algo=%s m=%d procs=%v\n", c.Algo, c.M, c.Procs)
	for _, op := range c.Init {
		fmt.Fprintf(&sb, "  init: %s\n", op)
	}
	for gi, g := range c.G {
		fmt.Fprintf(&sb, "  g%d:", gi)
		for _, op := range g {
			y := ""
			if op.Y {
				y = "~"
			}
			fmt.Fprintf(&sb, " %s%s;", y, op)
		}
		sb.WriteString("\n")
	}
	return sb.String()
}

func historyText(recs []rec) string {
	rs := append([]rec{}, recs...)
	sort.SliceStable(rs, func(i, j int) bool { return rs[i].Call < rs[j].Call })
	var sb strings.Builder
	for _, r := range rs {
		sb.WriteString("    " + r.String() + "\n")
	}
	return sb.String()
}

// firstProblem reports panics and malformed answers (torn / duplicated lists).
func firstProblem(recs []rec) error {
	for _, r := range recs {
		if r.Panic != "" {
			return fmt.Errorf("runtime panic in %s (goroutine g%d, op #%d): %s", r.Op, r.G, r.I, r.Panic)
		}
		if r.Out.Bad != "" {
			return fmt.Errorf("%s (goroutine g%d, op #%d) returned a malformed answer: %s", r.Op, r.G, r.I, r.Out.Bad)
		}
	}
	return nil
}

// overlaps counts pairs (writer, other op of another goroutine) whose windows intersect.
func overlaps(recs []rec) int {
	n := 0
	for i := range recs {
		if !isWriter(recs[i].Op.K) {
			continue
		}
		for j := range recs {
			if recs[j].G == recs[i].G || (isWriter(recs[j].Op.K) && j < i) {
				continue
			}
			if recs[i].Call < recs[j].Ret && recs[j].Call < recs[i].Ret {
				n++
			}
		}
	}
	return n
}
