package conc

import (
	"fmt"
	"testing"

	"pgregory.net/rapid"

	"verif/harness/internal/evid"
)

// TestC16RibFib: route registration / removal and face teardown (face.FaceTable.Remove ->
// Rib.CleanUpFace) racing with forwarding-thread lookups and the FIB / RIB listings.

func genRibFib(t *rapid.T) Case {
	var c Case
	g := newGenCtx(t)
	maxG, maxOps := sizeBounds()
	// RIB operations serialise on the RIB's mutex, so every waiting writer has a long
	// invocation/response window; porcupine's search is exponential in the number of
	// operations pending at once. Three programs out of four therefore have at most 4
	// goroutines that write (management thread + a few faces going down) next to any number
	// of readers (forwarding threads); the fourth has no limit and is checked by porcupine
	// only as far as its time-out allows (the invariants and the race detector always apply).
	maxWriters := rapid.SampledFrom([]int{1, 2, 3, 4, 2, 3, 4, 0}).Draw(t, "maxwriters")
	g.program(&c,
		[]string{"add", "add", "add", "add", "rmr"},
		[]string{"w", "w", "r", "r", "m"},
		map[string][]string{
			"w": {"add", "add", "add", "add", "rmr", "rmr", "down", "find"},
			"r": {"find", "find", "find", "find", "find", "find", "find", "list", "riblist"},
			"m": {"add", "add", "rmr", "down", "find", "find", "find", "list", "riblist"},
		}, maxG, maxOps, maxWriters)
	return c
}

type ribFacts struct {
	init     ribT
	addVals  [NP][NF + 1][NO]map[routeT]bool // values any add (prelude or program) registered
	progAdd  [NP][NF + 1][NO]map[routeT]bool // program only
	progRm   [NP][NF + 1][NO]bool
	addCosts [NP][NF + 1]map[int8]bool
}

func ribFactsOf(c Case) *ribFacts {
	f := &ribFacts{}
	note := func(p int, op Op, prog bool) {
		v := routeT{int8(op.C) + 1, int8(op.Fl)}
		ox := originX[op.O]
		if f.addVals[p][op.F][ox] == nil {
			f.addVals[p][op.F][ox] = map[routeT]bool{}
		}
		f.addVals[p][op.F][ox][v] = true
		if f.addCosts[p][op.F] == nil {
			f.addCosts[p][op.F] = map[int8]bool{}
		}
		f.addCosts[p][op.F][v.Cost] = true
		if prog {
			if f.progAdd[p][op.F][ox] == nil {
				f.progAdd[p][op.F][ox] = map[routeT]bool{}
			}
			f.progAdd[p][op.F][ox][v] = true
		}
	}
	for _, op := range c.Init {
		switch op.K {
		case "add", "rmr", "down":
			ribApply(&f.init, op)
			if op.K == "add" {
				note(pIndex[op.N], op, false)
			}
		}
	}
	for _, g := range c.G {
		for _, op := range g {
			switch op.K {
			case "add":
				note(pIndex[op.N], op, true)
			case "rmr":
				f.progRm[pIndex[op.N]][op.F][originX[op.O]] = true
			case "down":
				for p := 0; p < NP; p++ {
					for o := 0; o < NO; o++ {
						f.progRm[p][op.F][o] = true
					}
				}
			}
		}
	}
	return f
}

// plausibleHops: every (face, cost) of a lookup answer was registered by some operation on a
// prefix of the queried name (own or inherited routes come from nowhere else).
func (f *ribFacts) plausibleHops(q int, h hopsT) bool {
	for x := 1; x <= NF; x++ {
		if h[x] == 0 {
			continue
		}
		ok := false
		for _, p := range qChain[q] {
			if f.addCosts[p][x][h[x]] {
				ok = true
			}
		}
		if !ok {
			return false
		}
	}
	return true
}

func (f *ribFacts) invariants(all, fin []rec) error {
	for _, r := range all {
		if r.Op.K == "find" && !f.plausibleHops(qIndex[r.Op.N], r.Out.Hops) {
			return fmt.Errorf("%s (g%d op #%d) returned %s: some (face, cost) pair was never registered on any prefix of the name", r.Op, r.G, r.I, r.Out.Hops)
		}
	}
	var finalRib ribT
	var finalFib fibT
	for _, r := range fin {
		switch r.Op.K {
		case "riblist":
			finalRib = *r.Out.Rib
		case "list":
			finalFib = r.Out.Fib
		}
	}
	for p := 0; p < NP; p++ {
		for x := 1; x <= NF; x++ {
			for o := 0; o < NO; o++ {
				if !finalAllowed(finalRib[p][x][o], f.init[p][x][o], routeT{}, f.progAdd[p][x][o], f.progRm[p][x][o]) {
					return fmt.Errorf("after all operations completed the RIB holds for %s face %d origin %d: %+v, which no sequential order of the program's operations produces (initially %+v; final RIB %s)",
						uniP[p], x, origins[o], finalRib[p][x][o], f.init[p][x][o], finalRib)
				}
			}
		}
	}
	// at quiescence the FIB is the flattening of the routes the RIB lists (C06 on the final state)
	if want := ribFib(&finalRib); want != finalFib {
		return fmt.Errorf("after all operations completed the FIB is %s but the flattening of the final RIB %s is %s", finalFib, finalRib, want)
	}
	for _, r := range fin {
		if r.Op.K == "find" {
			if want := lpmRib(&finalRib, qIndex[r.Op.N]); want != r.Out.Hops {
				return fmt.Errorf("at quiescence %s = %s but the final RIB %s flattens to %s", r.Op, r.Out.Hops, finalRib, want)
			}
		}
	}
	return nil
}

func execRibFib(c Case) (res evid.Result) {
	validate(c)
	facts := ribFactsOf(c)
	var st runStats
	defer func() { st.result(&res) }()
	R := reps()
	for rep := 0; rep < R; rep++ {
		hist := rep%2 == 0
		procs := c.Procs[(rep/2)%len(c.Procs)] // both modes cycle through the whole list
		tb := setupTables(c)
		for _, op := range c.Init {
			tb.do(op)
		}
		pre := readFinal(tb, 0, true, false, true)
		for _, r := range pre {
			ok, _ := ribStep(facts.init, r.Op, r.Out)
			if r.Panic != "" || r.Out.Bad != "" || !ok {
				res.Err = failure(c, rep, hist, procs, fmt.Errorf("sequential prelude: %s does not match the reference (a C06 matter, reported because it invalidates this run)", r), nil)
				return
			}
		}
		recs, clock, err := runOnce(c, tb, hist, procs)
		if err != nil {
			res.Err = failure(c, rep, hist, procs, err, nil)
			return
		}
		fin := readFinal(tb, clock, true, false, true)
		all := append(append([]rec{}, recs...), fin...)
		if err := firstProblem(all); err != nil {
			res.Err = failure(c, rep, hist, procs, err, all)
			return
		}
		if err := facts.invariants(all, fin); err != nil {
			res.Err = failure(c, rep, hist, procs, err, all)
			return
		}
		if hist {
			st.histReps++
			if n := overlaps(recs); n > 0 {
				st.overlapR++
				st.overlapsN += n
			}
			if st.linOff {
				st.linSkip++
				continue
			}
			if err := checkLinearizable("RIB/FIB", all, facts.init, ribStep, &st.lin); err != nil {
				res.Err = failure(c, rep, hist, procs, err, nil)
				return
			}
			st.linOff = st.lin.unknown > 0
		} else {
			st.raceReps++
		}
	}
	res.NonTrivial = contended(c, nil)
	if res.NonTrivial {
		res.Classes = append(res.Classes, "rib-writer-contends-with-other-goroutine")
	}
	down, lookups := false, false
	for _, g := range c.G {
		for _, op := range g {
			down = down || op.K == "down"
			lookups = lookups || op.K == "find"
		}
	}
	if down {
		res.Classes = append(res.Classes, "face-teardown")
	}
	if lookups {
		res.Classes = append(res.Classes, "forwarding-lookups")
	}
	res.Classes = append(res.Classes, "algo-"+c.Algo, fmt.Sprintf("goroutines-%s", bucket(len(c.G))))
	if st.overlapR > 0 {
		res.Classes = append(res.Classes, "some-repetition-had-really-overlapping-operations")
	}
	return
}

const ruleRibFib = "rapid-generated concurrent programs (prelude + 2..16 goroutines x <=25 ops from Rib.AddEncRoute incl. re-registration with changed cost/flags, Rib.RemoveRouteEnc, face.FaceTable.Remove (-> Rib.CleanUpFace), FindNextHopsEnc consumed as the forwarding thread does, GetAllFIBEntries, Rib.GetAllEntries; 6 nested prefixes, faces 1..4, origins {0,65}, all flag combinations, both FIBs), executed R times as in TestC16FibOnly; history-mode repetitions are checked by porcupine against the from-scratch route-flattening reference of C06 (a RIB operation is one atomic step; a lookup may answer from any state in its window) with the final lookups and listings appended; every repetition also checks the order-insensitive invariants (no out-of-thin-air hop, final RIB cell-wise producible, final FIB = flattening of final RIB). Non-trivial: some RIB writer and some other operation of a different goroutine touch a common prefix; distinct by hash of the program"

func TestC16RibFib(t *testing.T) {
	rec := evid.New("C16", "TestC16RibFib", ruleRibFib)
	evid.Check(t, rec, genRibFib, execRibFib)
}

func TestC16RibFibReplay(t *testing.T) { evid.Replay(t, "TestC16RibFib", execRibFib) }

func TestC16RibFibRegress(t *testing.T) { evid.Regress(t, "C16", "TestC16RibFib", execRibFib) }
