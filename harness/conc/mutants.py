#!/usr/bin/env python3
"""Mutation-sensitivity runner of C16. Usage: harness/conc/mutants.py [name-filter] [--seed N] [--tier quick]
Applies each mutant to a scratch worktree (/tmp/wt-conc-mut) of the branch that carries the C16
fixes (VERIF_C16_BASE, default /tmp/wt-conc HEAD), runs ./check C16 with VERIF_REPO pointing there,
reports which unit caught it, reverts. Regression cases are moved away while the rapid units are
judged (MUT_NO_REGRESS=1 default) so that the table says what the *generated* search finds."""
import json, os, subprocess, sys, time, re, shutil

V = os.path.dirname(os.path.dirname(os.path.dirname(os.path.abspath(__file__))))
BASE = os.environ.get("VERIF_C16_BASE", "/tmp/wt-conc")
WT = "/tmp/wt-conc-mut"

T = "fw/table/fib-strategy-tree.go"
H = "fw/table/fib-strategy-hashtable.go"
R = "fw/table/rib.go"

MUTANTS = [
    dict(name="tree-insert-no-write-lock", file=T,
         old="func (f *FibStrategyTree) InsertNextHopEnc(name enc.Name, nexthop uint64, cost uint64) {\n\tf.fibStrategyRWMutex.Lock()\n\tdefer f.fibStrategyRWMutex.Unlock()\n",
         new="func (f *FibStrategyTree) InsertNextHopEnc(name enc.Name, nexthop uint64, cost uint64) {\n"),
    dict(name="ht-insert-no-write-lock", file=H,
         old="func (f *FibStrategyHashTable) InsertNextHopEnc(name enc.Name, nexthop uint64, cost uint64) {\n\tf.fibStrategyRWMutex.Lock()\n\tdefer f.fibStrategyRWMutex.Unlock()\n",
         new="func (f *FibStrategyHashTable) InsertNextHopEnc(name enc.Name, nexthop uint64, cost uint64) {\n"),
    dict(name="tree-remove-takes-RLock", file=T,
         old="func (f *FibStrategyTree) RemoveNextHopEnc(name enc.Name, nexthop uint64) {\n\tf.fibStrategyRWMutex.Lock()\n\tdefer f.fibStrategyRWMutex.Unlock()",
         new="func (f *FibStrategyTree) RemoveNextHopEnc(name enc.Name, nexthop uint64) {\n\tf.fibStrategyRWMutex.RLock()\n\tdefer f.fibStrategyRWMutex.RUnlock()"),
    dict(name="ht-setstrategy-takes-RLock", file=H,
         old="func (f *FibStrategyHashTable) SetStrategyEnc(name enc.Name, strategy enc.Name) {\n\tf.fibStrategyRWMutex.Lock()\n\tdefer f.fibStrategyRWMutex.Unlock()",
         new="func (f *FibStrategyHashTable) SetStrategyEnc(name enc.Name, strategy enc.Name) {\n\tf.fibStrategyRWMutex.RLock()\n\tdefer f.fibStrategyRWMutex.RUnlock()"),
    dict(name="tree-lookup-returns-live-slice", file=T,
         old="\t\t\tnexthops = make([]*FibNextHopEntry, len(curNode.nexthops))\n\t\t\tcopy(nexthops, curNode.nexthops)\n",
         new="\t\t\tnexthops = curNode.nexthops\n"),
    dict(name="ht-lookup-returns-live-slice (reverts fix 0e5f4b2)", file=H,
         old="\t\t\tnexthops := make([]*FibNextHopEntry, len(val.nexthops))\n\t\t\tcopy(nexthops, val.nexthops)\n\t\t\treturn nexthops\n",
         new="\t\t\treturn val.nexthops\n"),
    dict(name="tree-cost-update-in-place (reverts fix 3593169)", file=T,
         old="\t\t\tentry.nexthops[i] = &FibNextHopEntry{Nexthop: nexthop, Cost: cost}\n",
         new="\t\t\tentry.nexthops[i].Cost = cost\n"),
    dict(name="tree-listing-returns-live-entries (reverts fix ceb656d)", file=T, count=2,
         old="entries = append(entries, fsEntry.snapshot())", new="entries = append(entries, fsEntry)"),
    dict(name="tree-lookup-no-read-lock", file=T,
         old="func (f *FibStrategyTree) FindNextHopsEnc(name enc.Name) []*FibNextHopEntry {\n\tf.fibStrategyRWMutex.RLock()\n\tdefer f.fibStrategyRWMutex.RUnlock()\n",
         new="func (f *FibStrategyTree) FindNextHopsEnc(name enc.Name) []*FibNextHopEntry {\n"),
    dict(name="rib-no-mutex-in-AddEncRoute (reverts part of fix 959ee9d)", file=R,
         old="func (r *RibTable) AddEncRoute(name enc.Name, route *Route) {\n\tr.mutex.Lock()\n\tdefer r.mutex.Unlock()\n",
         new="func (r *RibTable) AddEncRoute(name enc.Name, route *Route) {\n"),
    dict(name="rib-no-mutex-in-CleanUpFace", file=R,
         old="func (r *RibTable) CleanUpFace(faceId uint64) {\n\tr.mutex.Lock()\n\tdefer r.mutex.Unlock()\n",
         new="func (r *RibTable) CleanUpFace(faceId uint64) {\n"),
    dict(name="rib-listing-without-mutex", file=R,
         old="func (r *RibTable) GetAllEntries() []*RibEntry {\n\tr.mutex.Lock()\n\tdefer r.mutex.Unlock()\n",
         new="func (r *RibTable) GetAllEntries() []*RibEntry {\n"),
    dict(name="rib-listing-returns-live-entries", file=R,
         old="entries = append(entries, ribEntry.snapshot())", new="entries = append(entries, ribEntry)"),
    # no data race in the next four: only the history / invariant oracles can see them
    dict(name="tree-replace-not-atomic (lock released between clear and inserts; reverts fix deca083)", file=T,
         old="\tfor _, update := range updates {\n\t\tf.clearNextHops(update.Name)\n\t\tfor _, nexthop := range update.Nexthops {\n\t\t\tf.insertNextHop(update.Name, nexthop.Nexthop, nexthop.Cost)\n\t\t}\n\t}\n}\n\n// clearNextHops is ClearNextHopsEnc for callers that hold the write lock.\nfunc (f *FibStrategyTree)",
         new="\tfor _, update := range updates {\n\t\tf.clearNextHops(update.Name)\n\t\tf.fibStrategyRWMutex.Unlock()\n\t\tf.fibStrategyRWMutex.Lock()\n\t\tfor _, nexthop := range update.Nexthops {\n\t\t\tf.insertNextHop(update.Name, nexthop.Nexthop, nexthop.Cost)\n\t\t}\n\t}\n}\n\n// clearNextHops is ClearNextHopsEnc for callers that hold the write lock.\nfunc (f *FibStrategyTree)"),
    dict(name="ht-replace-per-prefix (lock released between the prefixes of one RIB operation)", file=H,
         old="\tfor _, update := range updates {\n\t\tf.clearNextHops(update.Name)\n\t\tfor _, nexthop := range update.Nexthops {\n\t\t\tf.insertNextHop(update.Name, nexthop.Nexthop, nexthop.Cost)\n\t\t}\n\t}\n}\n\n// clearNextHops is ClearNextHopsEnc for callers that hold the write lock.\nfunc (f *FibStrategyHashTable)",
         new="\tfor _, update := range updates {\n\t\tf.clearNextHops(update.Name)\n\t\tfor _, nexthop := range update.Nexthops {\n\t\t\tf.insertNextHop(update.Name, nexthop.Nexthop, nexthop.Cost)\n\t\t}\n\t\tf.fibStrategyRWMutex.Unlock()\n\t\tf.fibStrategyRWMutex.Lock()\n\t}\n}\n\n// clearNextHops is ClearNextHopsEnc for callers that hold the write lock.\nfunc (f *FibStrategyHashTable)"),
    dict(name="rib-publishes-outside-its-mutex (FIB batch of AddEncRoute/RemoveRouteEnc sent after unlocking: batches can cross)", file=R,
         old="func (r *RibEntry) updateNexthopsEnc() {\n\tvar updates []FibNextHopsUpdate\n\tr.collectNexthopsEnc(&updates)\n\tFibStrategyTable.ReplaceNextHopsEnc(updates)\n}",
         new="func (r *RibEntry) updateNexthopsEnc() {\n\tvar updates []FibNextHopsUpdate\n\tr.collectNexthopsEnc(&updates)\n\tRib.mutex.Unlock()\n\truntime.Gosched()\n\tFibStrategyTable.ReplaceNextHopsEnc(updates)\n\tRib.mutex.Lock()\n}",
         extra=[("import (\n\t\"container/list\"\n", "import (\n\t\"container/list\"\n\t\"runtime\"\n")]),
    dict(name="tree-remove-drops-update-under-contention (TryLock in RemoveNextHopEnc: lost update, no race)", file=T,
         old="func (f *FibStrategyTree) RemoveNextHopEnc(name enc.Name, nexthop uint64) {\n\tf.fibStrategyRWMutex.Lock()\n",
         new="func (f *FibStrategyTree) RemoveNextHopEnc(name enc.Name, nexthop uint64) {\n\tif !f.fibStrategyRWMutex.TryLock() {\n\t\treturn\n\t}\n"),
    dict(name="ht-lookup-deadlocks-on-recursive-RLock-with-writer-waiting", file=H,
         old="func (f *FibStrategyHashTable) FindNextHopsEnc(name enc.Name) []*FibNextHopEntry {\n\tf.fibStrategyRWMutex.RLock()\n\tdefer f.fibStrategyRWMutex.RUnlock()\n",
         new="func (f *FibStrategyHashTable) FindNextHopsEnc(name enc.Name) []*FibNextHopEntry {\n\tf.fibStrategyRWMutex.RLock()\n\tdefer f.fibStrategyRWMutex.RUnlock()\n\tf.fibStrategyRWMutex.RLock()\n\tdefer f.fibStrategyRWMutex.RUnlock()\n"),
]


def sh(*a, **k):
    return subprocess.run(a, capture_output=True, text=True, **k)


def main():
    args = [a for a in sys.argv[1:] if not a.startswith("--")]
    flt = args[0] if args else ""
    seed = "1"
    tier = "quick"
    for i, a in enumerate(sys.argv):
        if a == "--seed":
            seed = sys.argv[i + 1]
        if a == "--tier":
            tier = sys.argv[i + 1]
    if "--seed" in sys.argv:
        args = [a for a in args if a != seed]
        flt = args[0] if args else ""
    sh("git", "-C", BASE, "worktree", "remove", "--force", WT)
    r = sh("git", "-C", BASE, "worktree", "add", "--detach", WT, "HEAD")
    assert r.returncode == 0, r.stderr
    env = dict(os.environ, VERIF_REPO=WT)
    if os.environ.get("MUT_WATCHDOG"):
        env["VERIF_C16_WATCHDOG_S"] = os.environ["MUT_WATCHDOG"]
    regress = os.path.join(V, "regress", "C16")
    hidden = regress + ".hidden-by-mutants"
    hide = os.environ.get("MUT_NO_REGRESS", "1") == "1" and os.path.isdir(regress)
    if hide:
        os.rename(regress, hidden)
    results = []
    try:
        for m in MUTANTS:
            if flt and flt not in m["name"]:
                continue
            p = os.path.join(WT, m["file"])
            src = open(p).read()
            if src.count(m["old"]) != m.get("count", 1):
                print("SKIP %s: pattern occurs %d times" % (m["name"], src.count(m["old"])))
                results.append((m["name"], "pattern-mismatch"))
                continue
            new = src.replace(m["old"], m["new"])
            for o, n in m.get("extra", []):
                assert new.count(o) == 1
                new = new.replace(o, n)
            open(p, "w").write(new)
            b = sh("go", "build", "./fw/...", cwd=WT, env=dict(os.environ, GOFLAGS="-mod=mod", GOPROXY="off"))
            if b.returncode != 0:
                print("NOBUILD %s\n%s" % (m["name"], b.stderr[-800:]))
                results.append((m["name"], "does-not-build"))
            else:
                t0 = time.time()
                r = sh(os.path.join(V, "check"), "C16", "--tier", tier, "--seed", seed, env=env, cwd=V)
                verdict = {0: "MISSED", 1: "caught", 2: "inconclusive"}.get(r.returncode, "rc%d" % r.returncode)
                logdir = os.path.join(V, ".build", "mutants-C16")
                os.makedirs(logdir, exist_ok=True)
                with open(os.path.join(logdir, re.sub(r"[^a-zA-Z0-9]+", "-", m["name"])[:60] + ".log"), "w") as lf:
                    lf.write(r.stdout + r.stderr)
                units = []
                for mm in re.finditer(r"VIOLATION property=C16 replay=(\S+)", r.stdout):
                    try:
                        units.append(json.load(open(mm.group(1)))["unit"] + (" (process death)" if "crash-" in mm.group(1) else ""))
                    except Exception:
                        units.append("?")
                how = ""
                for mm in re.finditer(r"VIOLATION property=C16 replay=(\S+)", r.stdout):
                    try:
                        r.stdout += "\n" + (json.load(open(mm.group(1))).get("message") or "")
                    except Exception:
                        pass
                if "DATA RACE" in r.stdout or re.search(r"Previous (read|write) at|(Read|Write) at 0x", r.stdout):
                    how = "race report"
                if "fatal error" in r.stdout:
                    how += " fatal error"
                if "not linearizable" in r.stdout:
                    how += " non-linearizable history"
                if "C16 DEADLOCK" in r.stdout:
                    how += " deadlock watchdog"
                if "no sequential order of the program" in r.stdout or "at quiescence" in r.stdout or "flattening of the final RIB" in r.stdout:
                    how += " final-state invariant"
                if "malformed answer" in r.stdout or "torn or mixed" in r.stdout or "never registered" in r.stdout:
                    how += " malformed/out-of-thin-air answer"
                print("%-12s %-80s %-45s %s (%.0fs)" % (verdict, m["name"], ",".join(sorted(set(units))), how.strip(), time.time() - t0), flush=True)
                results.append((m["name"], verdict, sorted(set(units)), how.strip()))
                if verdict != "caught":
                    print(r.stdout[-1500:])
            open(p, "w").write(src)
    finally:
        if hide:
            os.rename(hidden, regress)
        sh("git", "-C", BASE, "worktree", "remove", "--force", WT)
    os.makedirs(os.path.join(V, ".build"), exist_ok=True)
    json.dump(results, open(os.path.join(V, ".build", "mutants-C16-last.json"), "w"), indent=1)


if __name__ == "__main__":
    main()
