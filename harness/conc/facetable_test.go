package conc

import (
	"fmt"
	"runtime"
	"sort"
	"sync"
	"testing"

	"github.com/named-data/ndnd/fw/core"
	"github.com/named-data/ndnd/fw/defn"
	"github.com/named-data/ndnd/fw/dispatch"
	"github.com/named-data/ndnd/fw/face"
	"github.com/named-data/ndnd/fw/table"
	"pgregory.net/rapid"

	"verif/harness/internal/evid"
)

// TestC16FaceTable: face-table operations issued concurrently -- faces added from several
// goroutines (as the listeners and faces/create do), each registering a route for its new
// face, some of them torn down again at once. (Added after seeded defect C16-r2-3, a
// non-atomic face-id allocation in Table.Add, was missed: the other units only ever tear
// down faces by id and never add any.)
//
// Oracle (order-insensitive, i.e. what every sequential ordering of the operations gives):
// every added face has an id of its own; afterwards the face table and the dispatch map hold
// exactly the faces that were not torn down, each under its own id; the RIB holds exactly
// the routes of the surviving faces and the FIB forwards each prefix to exactly those faces.
// Plus the race detector (the unit is built with -race).

type FtCase struct {
	Algo   string  `json:"algo"`
	M      int     `json:"m"`
	G      [][]int `json:"g"`     // per goroutine: one entry per face it adds: 0 keep, 1 tear down at once, 2 tear down at the end
	Procs  int     `json:"procs"` // GOMAXPROCS
	Rounds int     `json:"rounds"`
}

func genFtCase(t *rapid.T) FtCase {
	c := FtCase{Algo: rapid.SampledFrom([]string{"nametree", "hashtable"}).Draw(t, "algo"), M: rapid.IntRange(1, 3).Draw(t, "m"),
		Procs: rapid.SampledFrom([]int{2, 4, 8, 16}).Draw(t, "procs")}
	ng := rapid.IntRange(2, 12).Draw(t, "goroutines")
	for i := 0; i < ng; i++ {
		c.G = append(c.G, rapid.SliceOfN(rapid.IntRange(0, 2), 1, 6).Draw(t, "faces"))
	}
	c.Rounds = 40
	if evid.Thorough() {
		c.Rounds = 400
	}
	return c
}

func ftOnce(c FtCase) error {
	cfg := core.DefaultConfig()
	cfg.Tables.Fib.Hashtable.M = uint16(c.M)
	cfg.Tables.Fib.Algorithm = c.Algo
	core.LoadConfig(cfg, "")
	table.VerifReset()
	table.CreateFIBTable(c.Algo)
	face.VerifResetFaceTable()

	type added struct {
		ls   *face.NDNLPLinkService
		id   uint64
		name string
		down bool
	}
	results := make([][]*added, len(c.G))
	start := make(chan struct{})
	var wg sync.WaitGroup
	for gi, plan := range c.G {
		wg.Add(1)
		go func(gi int, plan []int) {
			defer wg.Done()
			<-start
			var late []*added
			for k, what := range plan {
				uri := defn.DecodeURIString(fmt.Sprintf("udp4://10.%d.%d.1:6363", gi, k))
				tr := face.VerifMakeTransport(uri, defn.DecodeURIString("udp4://10.0.0.1:6363"), face.PersistencyPersistent, defn.NonLocal, defn.PointToPoint, defn.MaxNDNPacketSize)
				ls := face.MakeNDNLPLinkService(tr, face.MakeNDNLPLinkServiceOptions())
				face.FaceTable.Add(ls)
				a := &added{ls: ls, id: ls.FaceID(), name: uniP[1+(gi+k)%(NP-1)]}
				table.Rib.AddEncRoute(pNames[pIndex[a.name]].Clone(), &table.Route{FaceID: a.id, Origin: uint64(gi), Cost: uint64(k)})
				results[gi] = append(results[gi], a)
				switch what {
				case 1:
					a.down = true
					face.FaceTable.Remove(a.id)
				case 2:
					a.down = true
					late = append(late, a)
				}
				if k%2 == 1 {
					runtime.Gosched()
				}
			}
			for _, a := range late {
				face.FaceTable.Remove(a.id)
			}
		}(gi, plan)
	}
	// meanwhile the face table is listed, as faces/list, faces/query and the expiry sweep do
	stopList := make(chan struct{})
	var lwg sync.WaitGroup
	listErr := make(chan error, 4)
	for li := 0; li < 2; li++ {
		lwg.Add(1)
		go func(li int) {
			defer lwg.Done()
			<-start
			for {
				select {
				case <-stopList:
					return
				default:
				}
				ids := map[uint64]bool{}
				for _, f := range face.FaceTable.GetAll() {
					if f == nil {
						listErr <- fmt.Errorf("a listing of the face table contains a nil face")
						return
					}
					if ids[f.FaceID()] {
						listErr <- fmt.Errorf("a listing of the face table contains face %d twice", f.FaceID())
						return
					}
					ids[f.FaceID()] = true
				}
				if li == 1 {
					_ = face.FaceTable.GetByURI(defn.DecodeURIString("udp4://10.0.0.1:6363"))
				}
				runtime.Gosched()
			}
		}(li)
	}
	close(start)
	wg.Wait()
	close(stopList)
	lwg.Wait()
	select {
	case err := <-listErr:
		return err
	default:
	}

	// every face got an id of its own
	seen := map[uint64]*added{}
	var all []*added
	for _, rs := range results {
		for _, a := range rs {
			if b, dup := seen[a.id]; dup {
				return fmt.Errorf("two faces added concurrently both got FaceID=%d (routes on %s and %s)", a.id, a.name, b.name)
			}
			seen[a.id] = a
			all = append(all, a)
		}
	}
	want := map[string]map[uint64]bool{}
	for _, a := range all {
		got := face.FaceTable.Get(a.id)
		if a.down {
			if got != nil {
				return fmt.Errorf("face %d was torn down but is still in the face table", a.id)
			}
			if dispatch.GetFace(a.id) != nil {
				return fmt.Errorf("face %d was torn down but is still in the dispatch map", a.id)
			}
			continue
		}
		if got == nil || got.(*face.NDNLPLinkService) != a.ls {
			return fmt.Errorf("face %d is alive but the face table holds %v under its id", a.id, got)
		}
		if dispatch.GetFace(a.id) == nil {
			return fmt.Errorf("face %d is alive but missing from the dispatch map", a.id)
		}
		if want[a.name] == nil {
			want[a.name] = map[uint64]bool{}
		}
		want[a.name][a.id] = true
	}
	if n := face.VerifFaceTableLen(); n != len(all)-countDown(all, func(a *added) bool { return a.down }) {
		return fmt.Errorf("face table holds %d faces, %d are alive", n, len(all)-countDown(all, func(a *added) bool { return a.down }))
	}
	// ... and a listing made now shows exactly the faces that are alive
	listed := map[uint64]bool{}
	for _, f := range face.FaceTable.GetAll() {
		listed[f.FaceID()] = true
	}
	for _, a := range all {
		if a.down && listed[a.id] {
			return fmt.Errorf("face %d was torn down; a listing of the face table made after all operations finished still shows it", a.id)
		}
		if !a.down && !listed[a.id] {
			return fmt.Errorf("face %d is alive; a listing of the face table made after all operations finished does not show it", a.id)
		}
	}
	// RIB and FIB: exactly the routes of the surviving faces
	gotRib := map[string]map[uint64]bool{}
	for _, e := range table.Rib.GetAllEntries() {
		for _, r := range e.GetRoutes() {
			n := e.Name.String()
			if gotRib[n] == nil {
				gotRib[n] = map[uint64]bool{}
			}
			gotRib[n][r.FaceID] = true
		}
	}
	if s1, s2 := setStr(gotRib), setStr(want); s1 != s2 {
		return fmt.Errorf("RIB after the run holds %s, the surviving faces' routes are %s", s1, s2)
	}
	gotFib := map[string]map[uint64]bool{}
	for _, e := range table.FibStrategyTable.GetAllFIBEntries() {
		n := e.Name().String()
		gotFib[n] = map[uint64]bool{}
		for _, h := range e.GetNextHops() {
			gotFib[n][h.Nexthop] = true
		}
	}
	// flattening with the default flags (no inheritance: flags 0)
	if s1, s2 := setStr(gotFib), setStr(want); s1 != s2 {
		return fmt.Errorf("FIB after the run forwards %s, the surviving faces' routes are %s", s1, s2)
	}
	return nil
}

func countDown[T any](xs []T, f func(T) bool) int {
	n := 0
	for _, x := range xs {
		if f(x) {
			n++
		}
	}
	return n
}

func setStr(m map[string]map[uint64]bool) string {
	ks := make([]string, 0, len(m))
	for k, v := range m {
		if len(v) == 0 {
			continue
		}
		ids := make([]uint64, 0, len(v))
		for id := range v {
			ids = append(ids, id)
		}
		sort.Slice(ids, func(i, j int) bool { return ids[i] < ids[j] })
		ks = append(ks, fmt.Sprintf("%s->%v", k, ids))
	}
	sort.Strings(ks)
	return fmt.Sprint(ks)
}

func execFt(c FtCase) (res evid.Result) {
	old := runtime.GOMAXPROCS(c.Procs)
	defer runtime.GOMAXPROCS(old)
	nf := 0
	for _, g := range c.G {
		nf += len(g)
	}
	res.NonTrivial = len(c.G) >= 2 && nf >= 4
	for r := 0; r < c.Rounds; r++ {
		if err := ftOnce(c); err != nil {
			res.Err = fmt.Errorf("round %d: %v", r, err)
			return res
		}
	}
	res.Classes = append(res.Classes, "algo-"+c.Algo)
	return res
}

const ruleFt = "programs of 2..12 goroutines, each adding 1..6 real link-service faces to the face table (FaceTable.Add), registering a route for each new face and tearing some down at once or at the end (FaceTable.Remove -> Rib.CleanUpFace), released by a barrier, 40 rounds per program (400 thorough), under the race detector; afterwards face ids must be unique and face table, dispatch map, RIB and FIB must hold exactly the surviving faces and their routes. Non-trivial: >=2 goroutines and >=4 faces; distinct by program hash"

func TestC16FaceTable(t *testing.T) {
	rec := evid.New("C16", "TestC16FaceTable", ruleFt)
	evid.Check(t, rec, genFtCase, execFt)
}

func TestC16FaceTableReplay(t *testing.T) { evid.Replay(t, "TestC16FaceTable", execFt) }
