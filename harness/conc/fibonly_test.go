package conc

import (
	"fmt"
	"strings"
	"testing"

	"pgregory.net/rapid"

	"verif/harness/internal/evid"
)

// TestC16FibOnly: direct FIB and strategy-choice operations racing with lookups and listings,
// on the name-tree or the hash-table FIB.

// ---------------------------------------------------------------------------- generator pieces shared by the units

var (
	costs    = []uint64{0, 1, 2, 5, 10}
	faceBias = []uint64{1, 1, 2, 2, 3, 4}
)

type genCtx struct {
	t   *rapid.T
	hot []int // indices of the prefixes most operations are aimed at
}

func newGenCtx(t *rapid.T) *genCtx {
	g := &genCtx{t: t}
	n := rapid.IntRange(1, 3).Draw(t, "nhot")
	for i := 0; i < n; i++ {
		g.hot = append(g.hot, rapid.IntRange(0, NP-1).Draw(t, "hot"))
	}
	return g
}

func (g *genCtx) prefix() string {
	if rapid.IntRange(0, 9).Draw(g.t, "ph") < 7 {
		return uniP[rapid.SampledFrom(g.hot).Draw(g.t, "hp")]
	}
	return uniP[rapid.IntRange(0, NP-1).Draw(g.t, "p")]
}

// query names: mostly names whose prefix chain contains a hot prefix
func (g *genCtx) query() string {
	if rapid.IntRange(0, 9).Draw(g.t, "qh") < 7 {
		h := rapid.SampledFrom(g.hot).Draw(g.t, "hq")
		var cand []int
		for q := 0; q < NQ; q++ {
			for _, p := range qChain[q] {
				if p == h {
					cand = append(cand, q)
				}
			}
		}
		return uniQ[rapid.SampledFrom(cand).Draw(g.t, "q")]
	}
	return uniQ[rapid.IntRange(0, NQ-1).Draw(g.t, "q")]
}

func (g *genCtx) yield() bool { return rapid.IntRange(0, 3).Draw(g.t, "y") == 0 }

func (g *genCtx) op(kind string) Op {
	t := g.t
	switch kind {
	case "ins":
		return Op{K: "ins", N: g.prefix(), F: rapid.SampledFrom(faceBias).Draw(t, "f"), C: rapid.SampledFrom(costs).Draw(t, "c")}
	case "rm":
		return Op{K: "rm", N: g.prefix(), F: rapid.SampledFrom(faceBias).Draw(t, "f")}
	case "clr":
		return Op{K: "clr", N: g.prefix()}
	case "set":
		return Op{K: "set", N: g.prefix(), S: rapid.IntRange(0, len(strategies)-1).Draw(t, "s")}
	case "unset":
		n := g.prefix()
		if n == "/" {
			// caller precondition (fw/mgmt/strategy-choice.go refuses it): the root strategy can be replaced, never unset
			return Op{K: "set", N: "/", S: rapid.IntRange(0, len(strategies)-1).Draw(t, "s")}
		}
		return Op{K: "unset", N: n}
	case "add":
		return Op{K: "add", N: g.prefix(), F: rapid.SampledFrom(faceBias).Draw(t, "f"), O: rapid.SampledFrom(origins[:]).Draw(t, "o"),
			C: rapid.SampledFrom(costs).Draw(t, "c"), Fl: rapid.SampledFrom([]uint64{0, 1, 1, 1, 2, 3}).Draw(t, "fl")}
	case "rmr":
		return Op{K: "rmr", N: g.prefix(), F: rapid.SampledFrom(faceBias).Draw(t, "f"), O: rapid.SampledFrom(origins[:]).Draw(t, "o")}
	case "down":
		return Op{K: "down", F: rapid.SampledFrom(faceBias).Draw(t, "f")}
	case "find", "strat":
		return Op{K: kind, N: g.query()}
	}
	return Op{K: kind} // list lstrat riblist
}

// program draws the prelude and the goroutines. kinds[role] is the weighted list of
// operation kinds of a goroutine of that role. At most maxWriters goroutines get a role other
// than "r" (pure reader); 0 = no limit.
func (g *genCtx) program(c *Case, initKinds []string, roles []string, kinds map[string][]string, maxG, maxOps, maxWriters int) {
	t := g.t
	c.Algo = rapid.SampledFrom([]string{"nametree", "hashtable"}).Draw(t, "algo")
	c.M = rapid.IntRange(1, 3).Draw(t, "m")
	ninit := rapid.IntRange(0, 8).Draw(t, "ninit")
	for i := 0; i < ninit; i++ {
		c.Init = append(c.Init, g.op(rapid.SampledFrom(initKinds).Draw(t, "ik")))
	}
	ng := rapid.IntRange(2, maxG).Draw(t, "ng")
	writers := 0
	for gi := 0; gi < ng; gi++ {
		role := rapid.SampledFrom(roles).Draw(t, "role")
		if role != "r" {
			if maxWriters > 0 && writers >= maxWriters {
				role = "r"
			}
			writers++
		}
		n := rapid.IntRange(1, maxOps).Draw(t, "nops")
		ops := make([]Op, 0, n)
		for i := 0; i < n; i++ {
			op := g.op(rapid.SampledFrom(kinds[role]).Draw(t, "k"))
			op.Y = g.yield()
			ops = append(ops, op)
		}
		c.G = append(c.G, ops)
	}
	np := rapid.IntRange(1, 4).Draw(t, "nprocs")
	for i := 0; i < np; i++ {
		c.Procs = append(c.Procs, rapid.SampledFrom([]int{1, 2, 4, 8, 16}).Draw(t, "procs"))
	}
}

func sizeBounds() (maxG, maxOps int) {
	return 16, 25
}

// contended: some writer and some other operation (writer or reader) of a different goroutine
// touch a common prefix, within the domain dom selects (nil = every operation).
func contended(c Case, dom func(k string) bool) bool {
	for gi, g := range c.G {
		for _, a := range g {
			if !isWriter(a.K) || (dom != nil && !dom(a.K)) {
				continue
			}
			ka := keysOf(a)
			for gj, h := range c.G {
				if gj == gi {
					continue
				}
				for _, b := range h {
					if dom != nil && !dom(b.K) {
						continue
					}
					for _, x := range ka {
						for _, y := range keysOf(b) {
							if x == y {
								return true
							}
						}
					}
				}
			}
		}
	}
	return false
}

func hopDomain(k string) bool {
	switch k {
	case "ins", "rm", "clr", "find", "list", "add", "rmr", "down", "riblist":
		return true
	}
	return false
}

func stratDomain(k string) bool { return !hopDomain(k) }

// ---------------------------------------------------------------------------- TestC16FibOnly

func genFibOnly(t *rapid.T) Case {
	var c Case
	g := newGenCtx(t)
	maxG, maxOps := sizeBounds()
	g.program(&c,
		[]string{"ins", "ins", "ins", "ins", "set", "rm"},
		[]string{"w", "w", "r", "r", "m"},
		map[string][]string{
			"w": {"ins", "ins", "ins", "ins", "rm", "rm", "clr", "set", "unset", "find"},
			"r": {"find", "find", "find", "find", "find", "find", "strat", "strat", "list", "lstrat"},
			"m": {"ins", "ins", "rm", "clr", "set", "unset", "find", "find", "strat", "list", "lstrat"},
		}, maxG, maxOps, 0)
	return c
}

// finalAllowed decides whether value v may be the final value of a cell whose initial value
// was v0, which the program overwrites with the values in writes and clears if cleared:
// every operation has completed, so the cell holds what the last of them (in whatever order
// they took effect) left there.
func finalAllowed[T comparable](v, v0, zero T, writes map[T]bool, cleared bool) bool {
	if len(writes) == 0 && !cleared {
		return v == v0
	}
	if writes[v] {
		return true
	}
	return cleared && v == zero
}

type fibFacts struct {
	init      fibT
	initStrat stratT
	insCosts  [NP][NF + 1]map[int8]bool // costs any ins (prelude or program) gave (prefix, face)
	progIns   [NP][NF + 1]map[int8]bool // program only
	progClr   [NP][NF + 1]bool
	progSet   [NP]map[int8]bool
	progUnset [NP]bool
}

func fibFactsOf(c Case) *fibFacts {
	f := &fibFacts{}
	f.initStrat[0] = 1 // the root starts with best-route
	note := func(m *map[int8]bool, v int8) {
		if *m == nil {
			*m = map[int8]bool{}
		}
		(*m)[v] = true
	}
	for _, op := range c.Init {
		switch op.K {
		case "ins", "rm", "clr":
			_, st := fibStep(f.init, op, nil)
			f.init = st.(fibT)
			if op.K == "ins" {
				note(&f.insCosts[pIndex[op.N]][op.F], int8(op.C)+1)
			}
		case "set", "unset":
			_, st := stratStep(f.initStrat, op, nil)
			f.initStrat = st.(stratT)
		}
	}
	for _, g := range c.G {
		for _, op := range g {
			switch op.K {
			case "ins":
				note(&f.insCosts[pIndex[op.N]][op.F], int8(op.C)+1)
				note(&f.progIns[pIndex[op.N]][op.F], int8(op.C)+1)
			case "rm":
				f.progClr[pIndex[op.N]][op.F] = true
			case "clr":
				for x := 1; x <= NF; x++ {
					f.progClr[pIndex[op.N]][x] = true
				}
			case "set":
				if f.progSet[pIndex[op.N]] == nil {
					f.progSet[pIndex[op.N]] = map[int8]bool{}
				}
				f.progSet[pIndex[op.N]][int8(op.S+1)] = true
			case "unset":
				f.progUnset[pIndex[op.N]] = true
			}
		}
	}
	return f
}

// plausibleHops: the list must be explainable by one prefix of the query's chain, each
// (face, cost) pair having been inserted there by some operation. (Race-mode oracle; the
// linearizability check of history mode is strictly stronger.)
func (f *fibFacts) plausibleHops(q int, h hopsT) bool {
	if h == (hopsT{}) {
		return true
	}
	for _, p := range qChain[q] {
		ok := true
		for x := 1; x <= NF; x++ {
			if h[x] != 0 && !f.insCosts[p][x][h[x]] {
				ok = false
			}
		}
		if ok {
			return true
		}
	}
	return false
}

// readFinal reads the whole state through the public API after the program has finished.
func readFinal(tb *tables, clock int64, hops, strat, rib bool) []rec {
	var out []rec
	add := func(op Op) {
		r := rec{G: finalG, I: len(out), Op: op}
		clock++
		r.Call = clock
		r.Out, r.Panic = tb.safeDo(op)
		clock++
		r.Ret = clock
		out = append(out, r)
	}
	if hops {
		for _, q := range uniQ {
			add(Op{K: "find", N: q})
		}
		add(Op{K: "list"})
	}
	if strat {
		for _, q := range uniQ {
			add(Op{K: "strat", N: q})
		}
		add(Op{K: "lstrat"})
	}
	if rib {
		add(Op{K: "riblist"})
	}
	return out
}

func filter(recs []rec, dom func(string) bool) []rec {
	var out []rec
	for _, r := range recs {
		if dom(r.Op.K) {
			out = append(out, r)
		}
	}
	return out
}

type runStats struct {
	lin       linStats
	linOff    bool // a porcupine run timed out on this program: the remaining repetitions rely on the invariants
	linSkip   int
	overlapR  int // history-mode repetitions in which a writer's window overlapped another goroutine's operation
	histReps  int
	raceReps  int
	overlapsN int
}

func (s *runStats) result(res *evid.Result) {
	res.Counts = map[string]int{}
	for k, v := range map[string]int{
		"repetitions-history-mode":                              s.histReps,
		"repetitions-race-mode":                                 s.raceReps,
		"history-reps-with-real-overlap":                        s.overlapR,
		"overlapping-writer-pairs":                              s.overlapsN,
		"porcupine-partitions-checked":                          s.lin.checked,
		"porcupine-unknown(timeout)":                            s.lin.unknown,
		"history-reps-not-checked-by-porcupine-after-a-timeout": s.linSkip,
		"porcupine-operations":                                  s.lin.ops,
	} {
		if v != 0 {
			res.Counts[k] = v
		}
	}
}

func failure(c Case, rep int, hist bool, procs int, err error, recs []rec) error {
	mode := "race mode (no shared clock)"
	if hist {
		mode = "history mode"
	}
	msg := err.Error()
	first := msg
	if i := strings.Index(msg, "\n"); i >= 0 {
		first = msg[:i]
	}
	s := fmt.Sprintf("%s\nrepetition %d, %s, GOMAXPROCS=%d, program:\n%s", msg, rep, mode, procs, programText(c))
	if hist && recs != nil && len(recs) <= 150 {
		s += "  observed history:\n" + historyText(recs)
	}
	// the driver prints only the tail of the output: repeat the verdict at the end
	s += "VERDICT: " + first + "\n"
	return fmt.Errorf("%s", s)
}

func execFibOnly(c Case) (res evid.Result) {
	validate(c)
	facts := fibFactsOf(c)
	var st runStats
	defer func() { st.result(&res) }()
	R := reps()
	for rep := 0; rep < R; rep++ {
		hist := rep%2 == 0
		procs := c.Procs[(rep/2)%len(c.Procs)] // both modes cycle through the whole list
		tb := setupTables(c)
		for _, op := range c.Init {
			tb.do(op)
		}
		// the prelude is sequential: it must have produced the reference state (C05)
		pre := readFinal(tb, 0, true, true, false)
		for _, r := range pre {
			ok := true
			switch r.Op.K {
			case "find", "list":
				ok, _ = fibStep(facts.init, r.Op, r.Out)
			case "strat", "lstrat":
				ok, _ = stratStep(facts.initStrat, r.Op, r.Out)
			}
			if r.Panic != "" || r.Out.Bad != "" || !ok {
				res.Err = failure(c, rep, hist, procs, fmt.Errorf("sequential prelude: %s does not match the reference (a C05 matter, reported because it invalidates this run)", r), nil)
				return
			}
		}
		recs, clock, err := runOnce(c, tb, hist, procs)
		if err != nil {
			res.Err = failure(c, rep, hist, procs, err, nil)
			return
		}
		fin := readFinal(tb, clock, true, true, false)
		all := append(append([]rec{}, recs...), fin...)
		if err := firstProblem(all); err != nil {
			res.Err = failure(c, rep, hist, procs, err, all)
			return
		}
		if err := facts.invariants(all, fin); err != nil {
			res.Err = failure(c, rep, hist, procs, err, all)
			return
		}
		if hist {
			st.histReps++
			if n := overlaps(recs); n > 0 {
				st.overlapR++
				st.overlapsN += n
			}
			if st.linOff {
				st.linSkip++
				continue
			}
			if err := checkLinearizable("FIB next-hop", filter(all, hopDomain), facts.init, fibStep, &st.lin); err != nil {
				res.Err = failure(c, rep, hist, procs, err, nil)
				return
			}
			if err := checkLinearizable("strategy-choice", filter(all, stratDomain), facts.initStrat, stratStep, &st.lin); err != nil {
				res.Err = failure(c, rep, hist, procs, err, nil)
				return
			}
			st.linOff = st.lin.unknown > 0
		} else {
			st.raceReps++
		}
	}
	hc, sc := contended(c, hopDomain), contended(c, stratDomain)
	res.NonTrivial = hc || sc
	if hc {
		res.Classes = append(res.Classes, "next-hop-writer-contends-with-other-goroutine")
	}
	if sc {
		res.Classes = append(res.Classes, "strategy-writer-contends-with-other-goroutine")
	}
	res.Classes = append(res.Classes, "algo-"+c.Algo, fmt.Sprintf("goroutines-%s", bucket(len(c.G))))
	if st.overlapR > 0 {
		res.Classes = append(res.Classes, "some-repetition-had-really-overlapping-operations")
	}
	return
}

func bucket(n int) string {
	switch {
	case n <= 2:
		return "2"
	case n <= 4:
		return "3-4"
	case n <= 8:
		return "5-8"
	}
	return "9-16"
}

// invariants are the order-insensitive oracles that hold in both modes: every lookup is
// explainable by operations of the program, and the final tables are what some order of the
// program's operations leaves.
func (f *fibFacts) invariants(all, fin []rec) error {
	for _, r := range all {
		if r.Op.K == "find" && !f.plausibleHops(qIndex[r.Op.N], r.Out.Hops) {
			return fmt.Errorf("%s (g%d op #%d) returned %s: no single prefix of the name ever held these (face, cost) pairs - a torn or mixed list", r.Op, r.G, r.I, r.Out.Hops)
		}
	}
	var finalFib fibT
	var finalStrat stratT
	for _, r := range fin {
		switch r.Op.K {
		case "list":
			finalFib = r.Out.Fib
		case "lstrat":
			finalStrat = r.Out.Strats
		}
	}
	for p := 0; p < NP; p++ {
		for x := 1; x <= NF; x++ {
			if !finalAllowed(finalFib[p][x], f.init[p][x], 0, f.progIns[p][x], f.progClr[p][x]) {
				return fmt.Errorf("after all operations completed the FIB holds %s face %d = %s, which no sequential order of the program's operations produces (initially %s; final FIB %s)",
					uniP[p], x, costStr(finalFib[p][x]), costStr(f.init[p][x]), finalFib)
			}
		}
		if !finalAllowed(finalStrat[p], f.initStrat[p], 0, f.progSet[p], f.progUnset[p]) {
			return fmt.Errorf("after all operations completed the strategy of %s is %d, which no sequential order of the program's operations produces (final %s)", uniP[p], finalStrat[p], finalStrat)
		}
	}
	for _, r := range fin {
		switch r.Op.K {
		case "find":
			if want := lpmFib(&finalFib, qIndex[r.Op.N]); want != r.Out.Hops {
				return fmt.Errorf("at quiescence %s = %s but the FIB listing %s says %s", r.Op, r.Out.Hops, finalFib, want)
			}
		case "strat":
			if want := lpmStrat(&finalStrat, qIndex[r.Op.N]); want != r.Out.Strat {
				return fmt.Errorf("at quiescence %s = %d but the strategy listing %s says %d", r.Op, r.Out.Strat, finalStrat, want)
			}
		}
	}
	return nil
}

func costStr(v int8) string {
	if v == 0 {
		return "absent"
	}
	return fmt.Sprintf("cost %d", v-1)
}

const ruleFibOnly = "rapid-generated concurrent programs (prelude + 2..16 goroutines x <=25 ops from InsertNextHopEnc incl. cost updates, RemoveNextHopEnc, ClearNextHopsEnc, Set/UnSetStrategyEnc (never the root), FindNextHopsEnc consumed as fw/fw/thread.go + best-route do, FindStrategyEnc, GetAllFIBEntries, GetAllForwardingStrategies; 6 prefixes, 12 query names, name-tree or hash-table FIB with m in 1..3), each executed R times (quick 20, thorough 200) with real goroutines behind a barrier under -race, GOMAXPROCS cycling through a drawn list, runtime.Gosched() at drawn positions; even repetitions stamp invocation/response with a global atomic counter and are checked by porcupine (partitioned by prefix chain) with the final reads appended, odd repetitions share no clock (full race-detector power). Non-trivial: some writer and some other operation of a different goroutine touch a common prefix; distinct by hash of the program"

func TestC16FibOnly(t *testing.T) {
	rec := evid.New("C16", "TestC16FibOnly", ruleFibOnly)
	evid.Check(t, rec, genFibOnly, execFibOnly)
}

func TestC16FibOnlyReplay(t *testing.T) { evid.Replay(t, "TestC16FibOnly", execFibOnly) }

func TestC16FibOnlyRegress(t *testing.T) { evid.Regress(t, "C16", "TestC16FibOnly", execFibOnly) }
