package conc

import (
	"fmt"
	"testing"

	"pgregory.net/rapid"

	"verif/harness/internal/evid"
)

// TestC16Mixed: everything at once - management-style direct FIB and strategy updates, RIB
// registrations / removals, face teardown, forwarding lookups and all four listings in one
// program. What a RIB recomputation does to next hops that were inserted directly is not
// specified by any property, so this unit judges only what C16 states unconditionally: no
// data race, no crash, no deadlock, no malformed (nil / duplicated / out-of-thin-air) answer,
// and a final FIB whose lookups agree with its own listing.

func genMixed(t *rapid.T) Case {
	var c Case
	g := newGenCtx(t)
	maxG, maxOps := sizeBounds()
	g.program(&c,
		[]string{"add", "add", "ins", "ins", "set"},
		[]string{"rib", "fib", "r", "r", "m"},
		map[string][]string{
			"rib": {"add", "add", "add", "rmr", "down", "find"},
			"fib": {"ins", "ins", "ins", "rm", "clr", "set", "unset", "find"},
			"r":   {"find", "find", "find", "find", "find", "strat", "strat", "list", "lstrat", "riblist"},
			"m":   {"add", "rmr", "down", "ins", "rm", "clr", "set", "unset", "find", "find", "strat", "list", "lstrat", "riblist"},
		}, maxG, maxOps, 0)
	return c
}

func execMixed(c Case) (res evid.Result) {
	validate(c)
	ff, rf := fibFactsOf(c), ribFactsOf(c)
	plausible := func(q int, h hopsT) bool {
		for x := 1; x <= NF; x++ {
			if h[x] == 0 {
				continue
			}
			ok := false
			for _, p := range qChain[q] {
				if ff.insCosts[p][x][h[x]] || rf.addCosts[p][x][h[x]] {
					ok = true
				}
			}
			if !ok {
				return false
			}
		}
		return true
	}
	var st runStats
	defer func() { st.result(&res) }()
	R := reps()
	for rep := 0; rep < R; rep++ {
		procs := c.Procs[rep%len(c.Procs)]
		tb := setupTables(c)
		for _, op := range c.Init {
			tb.do(op)
		}
		recs, _, err := runOnce(c, tb, false, procs)
		if err != nil {
			res.Err = failure(c, rep, false, procs, err, nil)
			return
		}
		st.raceReps++
		fin := readFinal(tb, 0, true, true, true)
		all := append(append([]rec{}, recs...), fin...)
		if err := firstProblem(all); err != nil {
			res.Err = failure(c, rep, false, procs, err, nil)
			return
		}
		var finalFib fibT
		var finalStrat stratT
		for _, r := range fin {
			switch r.Op.K {
			case "list":
				finalFib = r.Out.Fib
			case "lstrat":
				finalStrat = r.Out.Strats
			}
		}
		for _, r := range all {
			switch r.Op.K {
			case "find":
				if !plausible(qIndex[r.Op.N], r.Out.Hops) {
					res.Err = failure(c, rep, false, procs, fmt.Errorf("%s (g%d op #%d) returned %s: some (face, cost) pair was never inserted or registered on any prefix of the name", r.Op, r.G, r.I, r.Out.Hops), nil)
					return
				}
				if r.G == finalG {
					if want := lpmFib(&finalFib, qIndex[r.Op.N]); want != r.Out.Hops {
						res.Err = failure(c, rep, false, procs, fmt.Errorf("at quiescence %s = %s but the FIB listing %s says %s", r.Op, r.Out.Hops, finalFib, want), nil)
						return
					}
				}
			case "strat":
				if r.G == finalG {
					if want := lpmStrat(&finalStrat, qIndex[r.Op.N]); want != r.Out.Strat {
						res.Err = failure(c, rep, false, procs, fmt.Errorf("at quiescence %s = %d but the strategy listing %s says %d", r.Op, r.Out.Strat, finalStrat, want), nil)
						return
					}
				}
			}
		}
	}
	ribW, fibW := false, false
	for _, g := range c.G {
		for _, op := range g {
			switch op.K {
			case "add", "rmr", "down":
				ribW = true
			case "ins", "rm", "clr":
				fibW = true
			}
		}
	}
	res.NonTrivial = contended(c, nil) && ribW && fibW
	if ribW && fibW {
		res.Classes = append(res.Classes, "rib-and-direct-fib-writers")
	}
	if contended(c, nil) {
		res.Classes = append(res.Classes, "writer-contends-with-other-goroutine")
	}
	res.Classes = append(res.Classes, "algo-"+c.Algo, fmt.Sprintf("goroutines-%s", bucket(len(c.G))))
	return
}

const ruleMixed = "rapid-generated concurrent programs mixing every operation kind of TestC16FibOnly and TestC16RibFib (direct FIB / strategy updates, RIB registration / removal, face teardown, lookups, all listings), executed R times in race mode (no shared clock) under -race; judged for data races, crashes, deadlock, malformed or out-of-thin-air answers and self-consistency of the final FIB. Non-trivial: a RIB writer and a direct FIB writer are present and some writer contends with another goroutine on a prefix; distinct by hash of the program"

func TestC16Mixed(t *testing.T) {
	rec := evid.New("C16", "TestC16Mixed", ruleMixed)
	evid.Check(t, rec, genMixed, execMixed)
}

func TestC16MixedReplay(t *testing.T) { evid.Replay(t, "TestC16Mixed", execMixed) }

func TestC16MixedRegress(t *testing.T) { evid.Regress(t, "C16", "TestC16Mixed", execMixed) }
