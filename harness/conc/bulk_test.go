package conc

import (
	"fmt"
	"runtime"
	"sort"
	"strings"
	"sync"
	"sync/atomic"
	"testing"

	"github.com/named-data/ndnd/fw/core"
	"github.com/named-data/ndnd/fw/face"
	"github.com/named-data/ndnd/fw/table"
	enc "github.com/named-data/ndnd/std/encoding"
	"pgregory.net/rapid"

	"verif/harness/internal/evid"
)

// TestC16BulkUpdate: ONE RIB operation that changes the next hops of many prefixes at once
// -- the teardown of a face that holds a route on each of K prefixes, or a child-inherit /
// capture route added to or removed from their common parent -- while readers keep looking
// the names up, as forwarding threads do. With a single operation in flight every lookup
// must return the next-hop set that name had before the operation or the one it has after
// it: nothing in between ("never a torn, duplicated or partially updated list"), whatever K.
// The six-prefix universe of the other units cannot tell an update that is atomic from one
// that is applied in batches. (Added after seeded defect C16-r3-3: ReplaceNextHopsEnc
// released its lock every 64 prefixes.) Before and after are taken from the tables
// themselves, sequentially; that they are the right sets is C06's business.

type BulkCase struct {
	Algo    string `json:"algo"`
	M       int    `json:"m"`
	K       int    `json:"k"`   // prefixes /top/<i>
	ParentA int    `json:"pa"`  // 0: no route of face A on /top; 1: child-inherit; 2: child-inherit, cost above the children's
	ParentB int    `json:"pb"`  // 0: none; 1: B child-inherit on /top
	ChildFl int    `json:"cfl"` // flags of the children's routes (0..3)
	Op      string `json:"op"`  // down | addInherit | rmInherit | addCapture
	Readers int    `json:"readers"`
	Procs   int    `json:"procs"`
	Rounds  int    `json:"rounds"`
	Extra   int    `json:"extra"` // lookup names per prefix beyond the prefix itself (descendants)
}

func genBulkCase(t *rapid.T) BulkCase {
	c := BulkCase{Algo: rapid.SampledFrom([]string{"nametree", "hashtable"}).Draw(t, "algo"), M: rapid.IntRange(1, 3).Draw(t, "m"),
		K:       rapid.SampledFrom([]int{3, 20, 63, 64, 65, 100, 130, 200, 300}).Draw(t, "k"),
		ParentA: rapid.IntRange(0, 2).Draw(t, "pa"), ParentB: rapid.IntRange(0, 1).Draw(t, "pb"), ChildFl: rapid.IntRange(0, 3).Draw(t, "cfl"),
		Op:      rapid.SampledFrom([]string{"down", "down", "addInherit", "rmInherit", "addCapture"}).Draw(t, "op"),
		Readers: rapid.IntRange(1, 6).Draw(t, "readers"), Procs: rapid.SampledFrom([]int{2, 4, 8, 16}).Draw(t, "procs"),
		Extra: rapid.IntRange(0, 1).Draw(t, "extra")}
	c.Rounds = 4
	if evid.Thorough() {
		c.Rounds = 30
	}
	return c
}

const (
	bulkFaceA = 7
	bulkFaceB = 9
	bulkFaceC = 11
)

func hopsStr(hs []*table.FibNextHopEntry) string {
	var ss []string
	for _, h := range hs {
		ss = append(ss, fmt.Sprintf("%d@%d", h.Nexthop, h.Cost))
	}
	sort.Strings(ss)
	return strings.Join(ss, ",")
}

func bulkOnce(c BulkCase) (torn bool, err error) {
	cfg := core.DefaultConfig()
	cfg.Tables.Fib.Hashtable.M = uint16(c.M)
	cfg.Tables.Fib.Algorithm = c.Algo
	cfg.Tables.Rib.ReadvertiseNlsr = false
	core.LoadConfig(cfg, "")
	table.VerifReset()
	table.CreateFIBTable(c.Algo)
	face.VerifResetFaceTable()

	top, _ := enc.NameFromStr("/top")
	var names []enc.Name
	for i := 0; i < c.K; i++ {
		n, _ := enc.NameFromStr(fmt.Sprintf("/top/%d", i))
		table.Rib.AddEncRoute(n.Clone(), &table.Route{FaceID: bulkFaceA, Origin: 0, Cost: uint64(10 + i), Flags: uint64(c.ChildFl)})
		names = append(names, n)
		if c.Extra > 0 {
			d, _ := enc.NameFromStr(fmt.Sprintf("/top/%d/obj/x", i))
			names = append(names, d)
		}
	}
	names = append(names, top)
	switch c.ParentA {
	case 1:
		table.Rib.AddEncRoute(top.Clone(), &table.Route{FaceID: bulkFaceA, Origin: 0, Cost: 0, Flags: table.RouteFlagChildInherit})
	case 2:
		table.Rib.AddEncRoute(top.Clone(), &table.Route{FaceID: bulkFaceA, Origin: 0, Cost: 5000, Flags: table.RouteFlagChildInherit})
	}
	if c.ParentB == 1 {
		table.Rib.AddEncRoute(top.Clone(), &table.Route{FaceID: bulkFaceB, Origin: 0, Cost: 1000, Flags: table.RouteFlagChildInherit})
	}
	if c.Op == "rmInherit" {
		table.Rib.AddEncRoute(top.Clone(), &table.Route{FaceID: bulkFaceC, Origin: 65, Cost: 1, Flags: table.RouteFlagChildInherit})
	}

	pre := make([]string, len(names))
	for i, n := range names {
		pre[i] = hopsStr(table.FibStrategyTable.FindNextHopsEnc(n))
	}
	type seen struct {
		name int
		hops string
	}
	var stop atomic.Bool
	var started sync.WaitGroup
	var wg sync.WaitGroup
	odd := make([][]seen, c.Readers)
	looks := make([]int, c.Readers)
	for r := 0; r < c.Readers; r++ {
		wg.Add(1)
		started.Add(1)
		go func(r int) {
			defer wg.Done()
			first := true
			mine := map[seen]bool{}
			for i := r; !stop.Load(); i = (i + 1 + r) % len(names) {
				i %= len(names)
				// consume the result as the forwarding path does: read the entries
				h := hopsStr(table.FibStrategyTable.FindNextHopsEnc(names[i]))
				looks[r]++
				if h != pre[i] {
					s := seen{i, h}
					if !mine[s] {
						mine[s] = true
						odd[r] = append(odd[r], s)
					}
				}
				if first {
					first = false
					started.Done()
				}
			}
		}(r)
	}
	started.Wait()
	switch c.Op {
	case "down":
		table.Rib.CleanUpFace(bulkFaceA)
	case "addInherit":
		table.Rib.AddEncRoute(top.Clone(), &table.Route{FaceID: bulkFaceC, Origin: 65, Cost: 1, Flags: table.RouteFlagChildInherit})
	case "rmInherit":
		table.Rib.RemoveRouteEnc(top.Clone(), bulkFaceC, 65)
	case "addCapture":
		table.Rib.AddEncRoute(top.Clone(), &table.Route{FaceID: bulkFaceC, Origin: 65, Cost: 1, Flags: table.RouteFlagCapture})
	}
	runtime.Gosched()
	stop.Store(true)
	wg.Wait()
	post := make([]string, len(names))
	changed := 0
	for i, n := range names {
		post[i] = hopsStr(table.FibStrategyTable.FindNextHopsEnc(n))
		if post[i] != pre[i] {
			changed++
		}
	}
	for r := range odd {
		for _, s := range odd[r] {
			if s.hops != post[s.name] {
				return false, fmt.Errorf("during the single operation %q (K=%d prefixes) a lookup of %s returned {%s}; before the operation it was {%s}, after it {%s}: a state that never existed",
					c.Op, c.K, names[s.name], s.hops, pre[s.name], post[s.name])
			}
			torn = true // a reader saw the new state while the operation or the readers were still running
		}
	}
	_ = changed
	return torn, nil
}

func execBulk(c BulkCase) (res evid.Result) {
	old := runtime.GOMAXPROCS(c.Procs)
	defer runtime.GOMAXPROCS(old)
	for r := 0; r < c.Rounds; r++ {
		sawNew, err := bulkOnce(c)
		if err != nil {
			res.Err = fmt.Errorf("round %d: %v", r, err)
			return res
		}
		if sawNew {
			res.NonTrivial = true
		}
	}
	res.Classes = append(res.Classes, "op-"+c.Op, "algo-"+c.Algo)
	if c.K > 64 {
		res.Classes = append(res.Classes, "more-than-64-prefixes")
	}
	return res
}

const ruleBulk = "one RIB operation that changes the next hops of K = 3..300 prefixes at once (teardown of the face holding a route on each /top/<i>; a child-inherit or capture route added to / removed from /top), on both FIB implementations, while 1..6 reader goroutines look the K prefixes (and descendants) up continuously; every lookup result must equal the name's next-hop set before the operation or after it (both read from the tables sequentially); 4 rounds per program (30 thorough), GOMAXPROCS 2..16, race detector on. Non-trivial: some reader observed the new state of a name while readers were still running; distinct by program hash"

func TestC16BulkUpdate(t *testing.T) {
	rec := evid.New("C16", "TestC16BulkUpdate", ruleBulk)
	evid.Check(t, rec, genBulkCase, execBulk)
}

func TestC16BulkUpdateReplay(t *testing.T) { evid.Replay(t, "TestC16BulkUpdate", execBulk) }
