package conc

import (
	"fmt"
	"runtime"
	"sync"
	"sync/atomic"
	"testing"
	"time"

	"github.com/named-data/ndnd/fw/core"
	"github.com/named-data/ndnd/fw/defn"
	"github.com/named-data/ndnd/fw/dispatch"
	"github.com/named-data/ndnd/fw/face"
	"github.com/named-data/ndnd/fw/fw"
	"github.com/named-data/ndnd/fw/table"
	enc "github.com/named-data/ndnd/std/encoding"
	"github.com/named-data/ndnd/std/ndn"
	spec "github.com/named-data/ndnd/std/ndn/spec_2022"
	sec "github.com/named-data/ndnd/std/security"
	"pgregory.net/rapid"

	"verif/harness/internal/evid"
	"verif/harness/internal/lpwire"
)

// TestC16ThreadTeardown: real forwarding threads doing their lookups (FIB, strategy, face
// dispatch map) while faces are torn down under them. Every face is a real link service on
// an in-memory transport and has a goroutine of its own, which -- like a transport's
// receive goroutine -- feeds Interests into it and, at a drawn point, closes the transport:
// the face's send goroutine then removes it from the face table and the dispatch map and
// cleans the RIB, while the forwarding threads are still working on its last Interests and on
// other faces' Interests that are routed to it. Prefixes are registered by the faces that
// also send Interests under them, so the FIB returns the incoming face as a next hop.
// Oracle: the process survives (a crash of a forwarding thread kills it: the driver then
// re-runs the in-flight case), no deadlock (watchdog), no race report, and afterwards the
// threads still forward: a probe Interest between two fresh faces gets through.
// (Added after seeded defect C16-r3-2, a second, unchecked dispatch.GetFace of the incoming
// face in the outgoing pipeline, was missed: no other unit runs a forwarding thread.)

type TdFace struct {
	Pfx     []int `json:"pfx"`     // prefixes this face registers (as an application would)
	Send    []int `json:"send"`    // prefixes of the Interests it sends, in order
	CloseAt int   `json:"closeAt"` // closes its transport after that many Interests (>= len(Send): at the end)
	Yield   int   `json:"yield"`   // yields the processor after every n-th Interest (0: never)
	// Answer: the face also plays producer: between its own Interests it answers every Interest the
	// forwarder sent it with Data echoing the PIT token, so that the threads' Data pipelines
	// (PIT match, downstream face lookup, send) run while the downstream faces are being torn down
	Answer bool `json:"ans,omitempty"`
}

type TdCase struct {
	Faces  []TdFace `json:"faces"`
	Procs  int      `json:"procs"`
	Rounds int      `json:"rounds"`
}

const tdPrefixes = 4

func genTdCase(t *rapid.T) TdCase {
	c := TdCase{Procs: rapid.SampledFrom([]int{2, 4, 8, 16}).Draw(t, "procs")}
	nf := rapid.IntRange(2, 8).Draw(t, "faces")
	for i := 0; i < nf; i++ {
		f := TdFace{Yield: rapid.SampledFrom([]int{0, 1, 2, 5}).Draw(t, "yield"), Answer: rapid.IntRange(0, 2).Draw(t, "answer") != 0}
		for p := 0; p < tdPrefixes; p++ {
			if rapid.IntRange(0, 2).Draw(t, "reg") == 0 {
				f.Pfx = append(f.Pfx, p)
			}
		}
		n := rapid.IntRange(1, 40).Draw(t, "nsend")
		for k := 0; k < n; k++ {
			// mostly under a prefix the face itself registered
			if len(f.Pfx) > 0 && rapid.IntRange(0, 3).Draw(t, "own") != 0 {
				f.Send = append(f.Send, f.Pfx[rapid.IntRange(0, len(f.Pfx)-1).Draw(t, "ownp")])
			} else {
				f.Send = append(f.Send, rapid.IntRange(0, tdPrefixes-1).Draw(t, "p"))
			}
		}
		f.CloseAt = rapid.IntRange(0, n+n/2).Draw(t, "closeAt")
		c.Faces = append(c.Faces, f)
	}
	c.Rounds = 6
	if evid.Thorough() {
		c.Rounds = 40
	}
	return c
}

var tdSeq atomic.Uint64

var tdSigner = sec.NewSha256Signer()

// tdAnswers: a Data frame (echoing the PIT token) for every Interest among the frames a face received.
func tdAnswers(frames [][]byte) (out [][]byte) {
	for _, fr := range frames {
		lp, err := lpwire.ParseFrame(fr)
		if err != nil || len(lp.Fragment) == 0 || lp.Fragment[0] != 0x05 {
			continue
		}
		p, _, err := spec.ReadPacket(enc.NewBufferReader(append([]byte{}, lp.Fragment...)))
		if err != nil || p.Interest == nil {
			continue
		}
		d, err := spec.Spec{}.MakeData(p.Interest.NameV.Clone(), &ndn.DataConfig{}, enc.Wire{[]byte("td")}, tdSigner)
		if err != nil {
			continue
		}
		ans := lpwire.LP{Fragment: d.Wire.Join(), HasFragment: true, PitToken: lp.PitToken}
		out = append(out, ans.Encode())
	}
	return out
}

func tdInterest(round uint64, prefix int, tag string) []byte {
	n, _ := enc.NameFromStr(fmt.Sprintf("/td/r%d/p%d/%s-%d", round, prefix, tag, tdSeq.Add(1)))
	nonce := uint64(uint32(tdSeq.Add(1)))
	lt := 200 * time.Millisecond
	e, err := spec.Spec{}.MakeInterest(n, &ndn.InterestConfig{Nonce: &nonce, Lifetime: &lt}, nil, nil)
	if err != nil {
		panic(err)
	}
	return e.Wire.Join()
}

// The forwarder lives as long as the test process: stopping forwarding threads means writing
// core.ShouldQuit, which the threads read without synchronisation (the daemon's shutdown path,
// not part of any listed property) -- the race detector would report that instead of what this
// unit is after. Rounds are kept apart by names of their own; the routes of a round disappear
// with its faces (CleanUpFace).
var (
	tdOnceSetup sync.Once
	tdRound     atomic.Uint64
)

func tdSetup(algo string) {
	tdOnceSetup.Do(func() {
		cfg := core.DefaultConfig()
		cfg.Fw.Threads = 3
		cfg.Tables.Fib.Algorithm = algo
		cfg.Tables.Rib.ReadvertiseNlsr = false
		cfg.Faces.CongestionMarking = false
		core.LoadConfig(cfg, "")
		core.ShouldQuit = false
		face.Configure()
		fw.Configure()
		table.VerifReset()
		table.Configure()
		face.VerifResetFaceTable()
		table.CreateFIBTable(algo)
		fw.Threads = make([]*fw.Thread, 3)
		var disp []dispatch.FWThread
		for i := range fw.Threads {
			th := fw.NewThread(i)
			fw.Threads[i] = th
			disp = append(disp, th)
		}
		dispatch.InitializeFWThreads(disp)
		for _, th := range fw.Threads {
			go th.Run()
		}
	})
}

func tdOnce(c TdCase, algo string) error {
	tdSetup(algo)
	round := tdRound.Add(1)

	mkFace := func(i int) (*face.VerifTransport, *face.NDNLPLinkService) {
		tr := face.VerifMakeTransport(defn.DecodeURIString(fmt.Sprintf("fd://%d", 50+i)), defn.DecodeURIString("unix:///run/nfd/nfd.sock"),
			face.PersistencyPersistent, defn.Local, defn.PointToPoint, defn.MaxNDNPacketSize)
		ls := face.MakeNDNLPLinkService(tr, face.MakeNDNLPLinkServiceOptions())
		ls.Run(nil)
		return tr, ls
	}
	type live struct {
		tr *face.VerifTransport
		ls *face.NDNLPLinkService
	}
	faces := make([]live, len(c.Faces))
	for i, f := range c.Faces {
		tr, ls := mkFace(i)
		faces[i] = live{tr, ls}
		for _, p := range f.Pfx {
			n, _ := enc.NameFromStr(fmt.Sprintf("/td/r%d/p%d", round, p))
			table.Rib.AddEncRoute(n, &table.Route{FaceID: ls.FaceID(), Origin: 0, Cost: uint64(i)})
		}
	}

	start := make(chan struct{})
	var wg sync.WaitGroup
	for i, f := range c.Faces {
		wg.Add(1)
		go func(i int, f TdFace) {
			defer wg.Done()
			<-start
			closed := false
			for k, p := range f.Send {
				if k == f.CloseAt && !closed {
					faces[i].tr.Close()
					closed = true
					// a receive goroutine delivers nothing after its transport closed
					return
				}
				faces[i].ls.VerifHandleIncomingFrame(tdInterest(round, p, fmt.Sprintf("f%d", i)))
				if f.Answer {
					for _, ans := range tdAnswers(faces[i].tr.VerifTakeFrames()) {
						faces[i].ls.VerifHandleIncomingFrame(ans)
					}
				}
				if f.Yield > 0 && k%f.Yield == 0 {
					runtime.Gosched()
				}
			}
			if !closed {
				if f.Answer {
					runtime.Gosched()
					for _, ans := range tdAnswers(faces[i].tr.VerifTakeFrames()) {
						faces[i].ls.VerifHandleIncomingFrame(ans)
					}
				}
				faces[i].tr.Close()
			}
		}(i, f)
	}
	close(start)
	done := make(chan struct{})
	go func() { wg.Wait(); close(done) }()
	select {
	case <-done:
	case <-time.After(watchdog):
		return fmt.Errorf("DEADLOCK: the face goroutines did not finish within %v", watchdog)
	}

	// every closed face must leave the face table and the dispatch map
	deadline := time.Now().Add(watchdog)
	for {
		left := 0
		for _, f := range faces {
			if face.FaceTable.Get(f.ls.FaceID()) != nil || dispatch.GetFace(f.ls.FaceID()) != nil {
				left++
			}
		}
		if left == 0 {
			break
		}
		if time.Now().After(deadline) {
			return fmt.Errorf("DEADLOCK: %d closed faces are still registered %v after their transports closed", left, watchdog)
		}
		time.Sleep(time.Millisecond)
	}
	// the threads still forward: a probe between two fresh faces
	ptr, pls := mkFace(100)
	ctr, cls := mkFace(101)
	defer func() {
		// the probe faces' send goroutines clean the RIB when they go: wait for them, or they
		// would still be at it when the next round re-creates the tables
		ptr.Close()
		ctr.Close()
		for end := time.Now().Add(watchdog); time.Now().Before(end); time.Sleep(200 * time.Microsecond) {
			if face.FaceTable.Get(pls.FaceID()) == nil && face.FaceTable.Get(cls.FaceID()) == nil &&
				dispatch.GetFace(pls.FaceID()) == nil && dispatch.GetFace(cls.FaceID()) == nil {
				break
			}
		}
	}()
	pn, _ := enc.NameFromStr(fmt.Sprintf("/td/r%d/probe", round))
	table.Rib.AddEncRoute(pn, &table.Route{FaceID: pls.FaceID(), Origin: 0, Cost: 0})
	n, _ := enc.NameFromStr(fmt.Sprintf("/td/r%d/probe/%d", round, tdSeq.Add(1)))
	nonce := uint64(7)
	e, _ := spec.Spec{}.MakeInterest(n, &ndn.InterestConfig{Nonce: &nonce}, nil, nil)
	probe := e.Wire.Join()
	cls.VerifHandleIncomingFrame(probe)
	deadline = time.Now().Add(watchdog)
	for {
		for _, fr := range ptr.VerifTakeFrames() {
			if lp, err := lpwire.ParseFrame(fr); err == nil && string(lp.Fragment) == string(probe) {
				return nil
			}
		}
		if time.Now().After(deadline) {
			return fmt.Errorf("after the teardown storm a probe Interest between two fresh faces is not forwarded within %v: a forwarding thread is dead or blocked", watchdog)
		}
		time.Sleep(time.Millisecond)
	}
}

func execTd(algo string) func(TdCase) evid.Result {
	return func(c TdCase) evid.Result { return execTdAlgo(c, algo) }
}

func execTdAlgo(c TdCase, algo string) (res evid.Result) {
	old := runtime.GOMAXPROCS(c.Procs)
	defer runtime.GOMAXPROCS(old)
	selfRouted := false
	for _, f := range c.Faces {
		own := map[int]bool{}
		for _, p := range f.Pfx {
			own[p] = true
		}
		for k, p := range f.Send {
			if own[p] && k < f.CloseAt {
				selfRouted = true
			}
		}
	}
	res.NonTrivial = len(c.Faces) >= 2 && selfRouted
	for r := 0; r < c.Rounds; r++ {
		if err := tdOnce(c, algo); err != nil {
			res.Err = fmt.Errorf("round %d: %v", r, err)
			return res
		}
	}
	if selfRouted {
		res.Classes = append(res.Classes, "face-sends-under-a-prefix-it-registered")
	}
	return res
}

const ruleTd = "3 real forwarding threads that live as long as the test process; 2..8 real link-service faces, each with a goroutine that feeds 1..40 Interests into it (mostly under prefixes the face itself registered, so that the FIB returns the incoming face as a next hop) and closes its transport at a drawn point, whereupon the face's send goroutine removes it from the face table and the dispatch map and cleans the RIB while the threads are still forwarding; 6 rounds per program (40 thorough), GOMAXPROCS 2..16, race detector on. The process must survive, nothing may deadlock (watchdog), closed faces must disappear, and a probe Interest between two fresh faces must still be forwarded. Non-trivial: >= 2 faces and some face sends under a prefix it registered before it closes; distinct by program hash"

func TestC16ThreadTeardown(t *testing.T) {
	rec := evid.New("C16", "TestC16ThreadTeardown", "name-tree FIB; "+ruleTd)
	evid.Check(t, rec, genTdCase, execTd("nametree"))
}

func TestC16ThreadTeardownReplay(t *testing.T) {
	evid.Replay(t, "TestC16ThreadTeardown", execTd("nametree"))
}

func TestC16ThreadTeardownHT(t *testing.T) {
	rec := evid.New("C16", "TestC16ThreadTeardownHT", "hash-table FIB; "+ruleTd)
	evid.Check(t, rec, genTdCase, execTd("hashtable"))
}

func TestC16ThreadTeardownHTReplay(t *testing.T) {
	evid.Replay(t, "TestC16ThreadTeardownHT", execTd("hashtable"))
}
