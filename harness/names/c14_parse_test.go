package names

import (
	"fmt"
	"go/ast"
	"go/parser"
	"go/token"
	"os"
	"path/filepath"
	"sort"
	"strconv"
	"strings"
	"testing"

	enc "github.com/named-data/ndnd/std/encoding"
	"pgregory.net/rapid"

	"verif/harness/internal/evid"
	"verif/harness/internal/modelscan"
	"verif/harness/internal/tlvwalk"
)

// C14 (parser part): NameFromStr / ComponentFromStr never panic on any string; and every
// name they *accept* is a name of the stated URI domain (the parser only produces types in
// 1..65535 and shortest-form numbers), so printing it and parsing it again must return
// the same name (metamorphic use of the round-trip law on parser output).
//
// The name-pattern parsers of the same file (NamePatternFromStr / ComponentPatternFromStr)
// are driven with the same strings: for them only "no panic" is demanded.

type ParseCase struct {
	S string `json:"s"`
}

var grammarTokens = []string{
	"/", "/", "/", "=", "=", "%", "%", "//", "/=", "=/", "==", "%%",
	"a", "b", "A", "Z", "z", "0", "1", "7", "9", "f", "F", "g", "x", "ab", "abc",
	"%00", "%41", "%2F", "%2f", "%3D", "%25", "%ff", "%FF", "%4", "%zz", "%G0", "%0", "%", "%%41", "%+1", "%-1", "% 1",
	"seg", "off", "v", "t", "seq", "sha256digest", "params-sha256", "seg=", "v=", "t=", "sha256digest=", "params-sha256=",
	"SEG", "Seg", "segment", "sha256", "v1", "se",
	"8", "8=", "0", "0=", "1=", "2=", "32=", "50=", "54=", "255=", "65535=", "65536=", "4294967296=", "18446744073709551615", "18446744073709551616",
	"00", "007", "+1", "-1", "1e3", "0x10", "1_0", " 1", "1 ",
	".", "..", "...", "....", "-", "_", "~", "\\", "\\/", "<", ">", "<a>", "<v=x>", "<=x>", "<8=", "<>", "<", "=>",
	" ", "\t", "\n", "\x00", "\x7f", "\x80", "\xff", "\xc3", "\xc3\xa9", "é", "١", "٣", "𝟙", "Ａ", "＝", "／", "∕", "�",
	"deadbeef", "DEADBEEF", "abc", "0g", "000", "f",
}

func genParseCase(t *rapid.T) ParseCase {
	switch rapid.IntRange(0, 9).Draw(t, "strKind") {
	case 0:
		return ParseCase{S: rapid.String().Draw(t, "any")}
	case 1:
		return ParseCase{S: string(rapid.SliceOfN(rapid.Byte(), 0, 12).Draw(t, "bytes"))}
	default:
		n := rapid.IntRange(0, 10).Draw(t, "ntok")
		var sb strings.Builder
		for i := 0; i < n; i++ {
			sb.WriteString(rapid.SampledFrom(grammarTokens).Draw(t, "tok"))
		}
		return ParseCase{S: sb.String()}
	}
}

type parseOutcome struct {
	nameOK, compOK bool
	special        bool
	outside        bool // accepted, but outside the domain of the String() round trip
}

// inUriDomain: types in 1..65535 and numeric-convention components hold a shortest-form
// number (exactly the domain the property states for the URI round trip).
func inUriDomain(n enc.Name) bool {
	for _, c := range n {
		if uint64(c.Typ) < 1 || uint64(c.Typ) > 65535 {
			return false
		}
		if isNumericType(uint64(c.Typ)) {
			if _, shortest, err := tlvwalk.ParseNNI(c.Val); err != nil || !shortest {
				return false
			}
		}
	}
	return true
}

// checkParse is shared by the rapid unit, the fuzz target and the corpus replay.
func checkParse(s string) (out parseOutcome, err error) {
	stage := "NameFromStr"
	defer func() {
		if r := recover(); r != nil {
			err = fmt.Errorf("%s(%q) panics: %v", stage, s, r)
		}
	}()
	n, nerr := enc.NameFromStr(s)
	if nerr == nil {
		out.nameOK = true
		if !inUriDomain(n) {
			out.outside = true
		}
		if perr := reparse(s, n); perr != nil {
			return out, perr
		}
	} else if n != nil {
		return out, fmt.Errorf("NameFromStr(%q) returns both a name and error %v", s, nerr)
	}
	stage = "ComponentFromStr"
	c, cerr := enc.ComponentFromStr(s)
	if cerr == nil {
		out.compOK = true
		if uint64(c.Typ) < 1 || uint64(c.Typ) > 65535 {
			return out, fmt.Errorf("ComponentFromStr(%q) accepts type %d outside 1..65535", s, uint64(c.Typ))
		}
		// print and parse again: must be the same component (String() only inside the
		// stated domain: "50=%00%01" is accepted with the text format and yields a
		// numeric-convention component whose value is not a shortest-form number)
		stage = "ComponentFromStr(String())"
		forms := []string{c.CanonicalString()}
		if inUriDomain(enc.Name{c}) {
			forms = append(forms, c.String())
		} else {
			out.outside = true
		}
		for _, form := range forms {
			c2, err2 := enc.ComponentFromStr(form)
			if err2 != nil || !c2.Equal(c) || c2.Compare(c) != 0 {
				return out, fmt.Errorf("ComponentFromStr(%q) = %s; printed as %q it parses back to %s (err %v)", s, showEnc(enc.Name{c}), form, showEnc(enc.Name{c2}), err2)
			}
		}
	}
	stage = "NamePatternFromStr"
	_, _ = enc.NamePatternFromStr(s)
	stage = "ComponentPatternFromStr"
	_, _ = enc.ComponentPatternFromStr(s)
	out.special = strings.ContainsAny(s, "=%/")
	return out, nil
}

func reparse(s string, n enc.Name) error {
	for i, c := range n {
		if uint64(c.Typ) < 1 || uint64(c.Typ) > 65535 {
			return fmt.Errorf("NameFromStr(%q) accepts component %d with type %d outside 1..65535", s, i, uint64(c.Typ))
		}
	}
	if !inUriDomain(n) {
		return nil
	}
	p := n.String()
	n2, err := enc.NameFromStr(p)
	if err != nil {
		return fmt.Errorf("NameFromStr(%q) = %s; printed as %q it no longer parses: %v", s, showEnc(n), p, err)
	}
	if !n2.Equal(n) || n2.Compare(n) != 0 || n2.Hash() != n.Hash() {
		return fmt.Errorf("NameFromStr(%q) = %s; printed as %q it parses back to %s", s, showEnc(n), p, showEnc(n2))
	}
	return nil
}

func execParse(c ParseCase) evid.Result {
	out, err := checkParse(c.S)
	res := evid.Result{Err: err}
	res.NonTrivial = out.special
	switch {
	case out.nameOK && out.compOK:
		res.Classes = append(res.Classes, "name-accepted", "component-accepted")
	case out.nameOK:
		res.Classes = append(res.Classes, "name-accepted", "component-rejected")
	case out.compOK:
		res.Classes = append(res.Classes, "name-rejected", "component-accepted")
	default:
		res.Classes = append(res.Classes, "name-rejected", "component-rejected")
	}
	if out.special {
		res.Classes = append(res.Classes, "has-'='-'%'-or-'/'")
	}
	if out.outside {
		res.Classes = append(res.Classes, "accepted-outside-round-trip-domain(numeric type, text value)")
	}
	return res
}

const ruleParse = "strings from a grammar biased to '/', '=', '%', hex digits, convention names, numbers at the type limits, pattern brackets, non-ASCII and invalid UTF-8 (plus unconstrained strings); NameFromStr/ComponentFromStr (and the pattern parsers) must not panic, and every accepted name/component must survive String()->parse. Non-trivial: the string contains '=', '%' or '/'"

func TestC14Parse(t *testing.T) {
	rec := evid.New("C14", "TestC14Parse", ruleParse)
	evid.Check(t, rec, genParseCase, execParse)
}

func TestC14ParseReplay(t *testing.T) { evid.Replay(t, "TestC14Parse", execParse) }

func TestC14ParseRegress(t *testing.T) { evid.Regress(t, "C14", "TestC14Parse", execParse) }

// ---------------------------------------------------------------------------- native fuzzing (thorough tier, by hand for now)

var fuzzSeeds = []string{
	"", "/", "//", "///", "/a", "/a/b", "/a/", "a", "a/b",
	"=x", "/a/=x", "=", "/=", "<=x>", "/<=x>", "<>", "<a>", "<v=x>", "<v=x", "/a/<8=t>/b",
	"/a/v=1", "/a/v=", "/a/v=x", "/a/v=18446744073709551615", "/a/v=18446744073709551616", "/a/seg=0/off=256/t=65536/seq=4294967296",
	"/sha256digest=00ff", "/sha256digest=0", "/params-sha256=zz", "/params-sha256=", "/sha256digest=%00",
	"/8=a", "/0=a", "/65535=a", "/65536=a", "/32=kw", "/-1=a", "/+1=a", "/1=%41", "/08=a",
	"/%41", "/%4", "/%", "/a%2Fb", "/a%zzb", "/%00%ff", "/a=b=c", "/a\\b", "/a b", "/é", "/\xff\xfe", "/..", "/.", "/...", "/....",
	"/localhost/nfd/strategy/best-route/v=5", "/ndn/edu/ucla/%C1.Router/cs/host", "/a//b", "/a///",
}

func FuzzC14Parse(f *testing.F) {
	for _, s := range fuzzSeeds {
		f.Add(s)
	}
	for _, tok := range minedTokens() {
		f.Add(tok)
		f.Add(tok + "//a")
		f.Add("/" + tok + "=a")
	}
	f.Fuzz(func(t *testing.T, s string) {
		if _, err := checkParse(s); err != nil {
			t.Fatal(err)
		}
	})
}

// readFuzzFile decodes a file of the native fuzzing corpus format holding one string.
func readFuzzFile(path string) (string, bool) {
	b, err := os.ReadFile(path)
	if err != nil {
		return "", false
	}
	lines := strings.Split(strings.TrimRight(string(b), "\n"), "\n")
	if len(lines) < 2 || !strings.HasPrefix(lines[0], "go test fuzz v1") {
		return "", false
	}
	l := strings.TrimSpace(lines[1])
	for _, pre := range []string{"string(", "[]byte("} {
		if strings.HasPrefix(l, pre) && strings.HasSuffix(l, ")") {
			if s, err := strconv.Unquote(l[len(pre) : len(l)-1]); err == nil {
				return s, true
			}
		}
	}
	return "", false
}

// TestC14FuzzCorpus replays, as plain cases with evidence, the seed corpus of
// FuzzC14Parse plus every input the native fuzzer saved under testdata/fuzz/FuzzC14Parse
// (crashers and hand-kept interesting inputs).
func TestC14FuzzCorpus(t *testing.T) {
	rec := evid.New("C14", "TestC14FuzzCorpus", "seed corpus of the native fuzz target FuzzC14Parse plus saved fuzzer inputs (testdata/fuzz/FuzzC14Parse), replayed through the same oracle as TestC14Parse")
	cases := make([]ParseCase, 0, len(fuzzSeeds))
	for _, s := range fuzzSeeds {
		cases = append(cases, ParseCase{S: s})
	}
	files, _ := filepath.Glob(filepath.Join("testdata", "fuzz", "FuzzC14Parse", "*"))
	sort.Strings(files)
	saved := 0
	for _, fn := range files {
		if s, ok := readFuzzFile(fn); ok {
			cases = append(cases, ParseCase{S: s})
			saved++
		}
	}
	rec.Count("saved-fuzzer-inputs", saved)
	evid.Each(t, rec, cases, execParse)
}

// ---------------------------------------------------------------------------- tokens mined from the parser's own source

// minedTokens: every short string and character literal of the non-test Go files of std/encoding in
// the tree under test (the URI parser lives there). What a parser treats specially it has to spell
// somewhere: convention names, separators, scheme prefixes. The list is recomputed from the tree at
// every run (sorted, so the cases are a function of the tree), and a parser that learns a new keyword
// brings its own test inputs with it.
func minedTokens() []string {
	dir := filepath.Join(modelscan.RepoDir(), "std", "encoding")
	files, _ := filepath.Glob(filepath.Join(dir, "*.go"))
	set := map[string]bool{}
	for _, fn := range files {
		if strings.HasSuffix(fn, "_test.go") {
			continue
		}
		f, err := parser.ParseFile(token.NewFileSet(), fn, nil, 0)
		if err != nil {
			continue
		}
		ast.Inspect(f, func(n ast.Node) bool {
			if imp, ok := n.(*ast.ImportSpec); ok && imp != nil {
				return false
			}
			lit, ok := n.(*ast.BasicLit)
			if !ok || (lit.Kind != token.STRING && lit.Kind != token.CHAR) {
				return true
			}
			var s string
			if lit.Kind == token.CHAR {
				r, _, _, err := strconv.UnquoteChar(lit.Value[1:len(lit.Value)-1], '\'')
				if err != nil {
					return true
				}
				s = string(r)
			} else {
				u, err := strconv.Unquote(lit.Value)
				if err != nil {
					return true
				}
				s = u
			}
			if len(s) >= 1 && len(s) <= 16 && !strings.ContainsAny(s, " \n\t") {
				set[s] = true
			}
			return true
		})
	}
	out := make([]string, 0, len(set))
	for s := range set {
		out = append(out, s)
	}
	sort.Strings(out)
	return out
}

var minedFrames = []string{
	"%s", "/%s", "%s/", "/%s/", "%s//", "%s//a", "%s//a/b", "%s/a", "/a/%s", "/a/%s/b", "%sa", "a%s", "%s=", "%s=a", "=%s", "a=%s", "/%s=a", "/%s=1",
	"/%s=%%00", "%s%s", "/%s%s", "%s:", "%s://", "%s://a", "%s:/a", "%s:a", "<%s>", "/<%s>", "<%s=x>", "%s%%", "%%%s", "/%s/..", "%s=/", "8=%s", "/8=%s/%s",
}

const ruleMined = "every short string/character literal of the parser's own source files (std/encoding/*.go of the tree under test, mined at run time) - also upper-cased and capitalised - in 35 frames (alone, between slashes, before '//', '://', '=', inside pattern brackets, doubled, ...): same oracle as TestC14Parse (no parser panics, accepted names survive String()->parse). Non-trivial: the string contains '=', '%' or '/'"

func TestC14ParseMined(t *testing.T) {
	rec := evid.New("C14", "TestC14ParseMined", ruleMined)
	toks := minedTokens()
	rec.Count("mined-tokens", len(toks))
	var cases []ParseCase
	seen := map[string]bool{}
	for _, tok := range toks {
		for _, v := range []string{tok, strings.ToUpper(tok), strings.ToUpper(tok[:1]) + tok[1:]} {
			for _, fr := range minedFrames {
				s := strings.ReplaceAll(strings.ReplaceAll(fr, "%s", v), "%%", "%")
				if !seen[s] {
					seen[s] = true
					cases = append(cases, ParseCase{S: s})
				}
			}
		}
	}
	if len(toks) < 10 {
		// not a verdict about the code: the driver reports exit status 3 without a failing case as inconclusive
		fmt.Printf("INCONCLUSIVE-HARNESS: only %d literals mined from %s\n", len(toks), modelscan.RepoDir())
		os.Exit(3)
	}
	evid.Each(t, rec, cases, execParse)
}

func TestC14ParseMinedReplay(t *testing.T) { evid.Replay(t, "TestC14ParseMined", execParse) }
