package names

import (
	"fmt"
	"os"
	"os/exec"
	"strings"
	"sync"
	"sync/atomic"
	"testing"

	enc "github.com/named-data/ndnd/std/encoding"

	"verif/harness/internal/evid"
)

// C14 in a process that has just started. Every other unit parses its first URI from one goroutine;
// whatever the parser builds on first use (tables of convention names, say) is complete long before a
// second goroutine comes along. An application parses names from whichever goroutines it has, from
// its first instruction on. The unit starts fresh processes (this test binary, child mode); in each,
// several goroutines released together parse -- as the first thing that process ever does with the
// package -- URIs that use every naming convention, and print them back. Every parse must succeed and
// give the name the URI spells; a crash of the child is a failure too.
// (Seeded C14-r9-1: the table of convention names built lazily, published before it is filled.)

type ColdCase struct {
	Children   int `json:"children"`
	Goroutines int `json:"goroutines"`
}

const coldEnv = "VERIF_C14_COLDSTART_CHILD"

var coldURIs = []string{
	"/seg=1/off=2/v=3/t=4/seq=5",
	"/a/sha256digest=" + strings.Repeat("ab", 32),
	"/a/params-sha256=" + strings.Repeat("0f", 32) + "/seg=7",
	"/32=kw/v=18446744073709551615/t=0",
	"/off=65536/seq=4294967296/b",
}

// TestC14ColdStartChild is the child: it does nothing unless the parent asked for it.
func TestC14ColdStartChild(t *testing.T) {
	n := 0
	fmt.Sscanf(os.Getenv(coldEnv), "%d", &n)
	if n <= 0 {
		t.Skip("child mode only")
	}
	// a spinning barrier: the goroutines are running on their processors when the last one arrives,
	// and go on within nanoseconds of each other (a goroutine woken from a wait starts microseconds late)
	var ready atomic.Int32
	var done sync.WaitGroup
	var bad atomic.Value
	for g := 0; g < n; g++ {
		done.Add(1)
		go func(g int) {
			defer done.Done()
			ready.Add(1)
			for spins := 0; ready.Load() < int32(n) && spins < 50_000_000; spins++ {
			}
			for i := range coldURIs {
				u := coldURIs[(i+g)%len(coldURIs)]
				nm, err := enc.NameFromStr(u)
				if err != nil {
					bad.Store(fmt.Sprintf("goroutine %d: NameFromStr(%q): %v", g, u, err))
					return
				}
				if back := nm.String(); back != u {
					bad.Store(fmt.Sprintf("goroutine %d: NameFromStr(%q) prints as %q", g, u, back))
					return
				}
			}
		}(g)
	}
	done.Wait()
	if m := bad.Load(); m != nil {
		fmt.Printf("COLDSTART-FAIL: %s\n", m)
		t.Fatal(m)
	}
}

func execCold(c ColdCase) (res evid.Result) {
	for i := 0; i < c.Children; i++ {
		cmd := exec.Command(os.Args[0], "-test.run=^TestC14ColdStartChild$", "-test.count=1")
		cmd.Env = append(os.Environ(), fmt.Sprintf("%s=%d", coldEnv, c.Goroutines))
		out, err := cmd.CombinedOutput()
		if err != nil {
			msg := string(out)
			if k := strings.Index(msg, "COLDSTART-FAIL: "); k >= 0 {
				msg = strings.SplitN(msg[k+len("COLDSTART-FAIL: "):], "\n", 2)[0]
			} else if len(msg) > 600 {
				msg = msg[:600]
			}
			res.Err = fmt.Errorf("fresh process %d of %d, %d goroutines parsing their first URIs at once: %s (%v)", i+1, c.Children, c.Goroutines, strings.TrimSpace(msg), err)
			return res
		}
	}
	res.NonTrivial = c.Goroutines >= 2
	res.Counts = map[string]int{"fresh-processes": c.Children}
	return res
}

const ruleCold = "fresh processes (this test binary re-executed): 2..8 goroutines released together parse, as the first use of the package in that process, URIs using every naming convention, and print them back; every parse must succeed and print as it was spelled, no child may crash. Non-trivial: >= 2 goroutines"

func TestC14ColdStart(t *testing.T) {
	rec := evid.New("C14", "TestC14ColdStart", ruleCold)
	n := 20
	if evid.Thorough() {
		n = 150
	}
	cases := []ColdCase{{Children: n, Goroutines: 6}, {Children: n, Goroutines: 2}, {Children: n / 2, Goroutines: 8}}
	evid.Each(t, rec, cases, execCold)
}

func TestC14ColdStartReplay(t *testing.T) { evid.Replay(t, "TestC14ColdStart", execCold) }
