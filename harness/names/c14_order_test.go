package names

import (
	"bytes"
	"fmt"
	"testing"

	enc "github.com/named-data/ndnd/std/encoding"
	"pgregory.net/rapid"

	"verif/harness/internal/evid"
)

// C14 (order / equality / prefix / hash part).
//
// Case: three names generated close to each other. Oracle, for every ordered pair (x,y)
// out of the three (including x with itself, as separately built values):
//
//	sgn(x.Compare(y)) == reference canonical comparator == sgn(bytes.Compare(wire(x), wire(y)))
//	   (the canonical order is the lexicographic order of the shortest-form encodings,
//	   because var-numbers are monotone and self-delimiting)
//	Compare is reflexive-zero, antisymmetric, transitive over the triple
//	x.Equal(y) <=> Compare == 0 <=> equal harness encodings <=> equal x.Bytes()/y.Bytes()
//	x.IsPrefix(y) <=> len(x) <= len(y) && x == y[:len(x)]   (reference)
//	x == y => x.Hash() == y.Hash(); PrefixHash()[i] == x[:i].Hash(); len(PrefixHash()) == len+1
//	component-wise: Compare/Equal/Hash of components agree in the same way
//
// Hash collisions of unequal names are only counted.

type OrderCase struct {
	A Name `json:"a"`
	B Name `json:"b"`
	C Name `json:"c"`
}

func genOrderCase(t *rapid.T) OrderCase {
	a := genName(t, 5, false)
	b := mutate(t, a)
	var c Name
	switch rapid.IntRange(0, 2).Draw(t, "cFrom") {
	case 0:
		c = mutate(t, a)
	case 1:
		c = mutate(t, b)
	default:
		c = mutate(t, mutate(t, b))
	}
	return OrderCase{A: a, B: b, C: c}
}

func execOrder(c OrderCase) (res evid.Result) {
	defer func() {
		if r := recover(); r != nil {
			res.Err = fmt.Errorf("panic: %v", r)
		}
	}()
	plain := []Name{c.A, c.B, c.C}
	// two separately built values per name (nil vs empty slices for empty values)
	e1 := []enc.Name{c.A.toEnc(true), c.B.toEnc(false), c.C.toEnc(true)}
	e2 := []enc.Name{c.A.toEnc(false), c.B.toEnc(true), c.C.toEnc(false)}
	label := "abc"
	wire := [][]byte{refValue(c.A), refValue(c.B), refValue(c.C)}

	differShare := 0
	for i := 0; i < 3; i++ {
		for j := 0; j < 3; j++ {
			x, y := e1[i], e2[j]
			want := refCmpName(plain[i], plain[j])
			if w2 := sgn(bytes.Compare(wire[i], wire[j])); w2 != want {
				return evid.Result{Err: fmt.Errorf("harness: reference comparator (%d) and wire order (%d) disagree on %s,%s", want, w2, plain[i], plain[j])}
			}
			got := sgn(x.Compare(y))
			if got != want {
				return evid.Result{Err: fmt.Errorf("Compare(%c,%c) = %d, canonical order says %d: %s vs %s", label[i], label[j], got, want, plain[i], plain[j])}
			}
			if back := sgn(y.Compare(x)); back != -got {
				return evid.Result{Err: fmt.Errorf("Compare not antisymmetric: (%c,%c)=%d, (%c,%c)=%d: %s vs %s", label[i], label[j], got, label[j], label[i], back, plain[i], plain[j])}
			}
			eq := x.Equal(y)
			if eq != (want == 0) {
				return evid.Result{Err: fmt.Errorf("Equal(%c,%c) = %v but canonical comparison = %d: %s vs %s", label[i], label[j], eq, want, plain[i], plain[j])}
			}
			if y.Equal(x) != eq {
				return evid.Result{Err: fmt.Errorf("Equal not symmetric on %s vs %s", plain[i], plain[j])}
			}
			if be := bytes.Equal(x.Bytes(), y.Bytes()); be != eq {
				return evid.Result{Err: fmt.Errorf("Equal(%c,%c) = %v but Bytes() equal = %v: %s vs %s", label[i], label[j], eq, be, plain[i], plain[j])}
			}
			if ip, wp := x.IsPrefix(y), refIsPrefix(plain[i], plain[j]); ip != wp {
				return evid.Result{Err: fmt.Errorf("IsPrefix(%c,%c) = %v, reference %v: %s vs %s", label[i], label[j], ip, wp, plain[i], plain[j])}
			}
			hx, hy := x.Hash(), y.Hash()
			if eq && hx != hy {
				return evid.Result{Err: fmt.Errorf("equal names hash differently (%#x vs %#x): %s", hx, hy, plain[i])}
			}
			if !eq && hx == hy {
				res.Counts = addCount(res.Counts, "hash-collision-of-unequal-names(statistic)", 1)
			}
			if i < j && want != 0 {
				cp := commonPrefixLen(plain[i], plain[j])
				if cp >= 1 {
					differShare++
				}
			}
		}
	}
	// The same questions asked of names that share one backing array: callers routinely
	// slice names (n[:i]); the answers must not depend on the representation. (Added after a
	// seeded defect -- an aliasing "fast path" in IsPrefix -- was missed: the unit only ever
	// compared separately built values.)
	for i := 0; i < 3; i++ {
		z := e1[i]
		for k := 0; k <= len(z); k++ {
			p := z[:k]
			for k2 := 0; k2 <= len(z); k2++ {
				q := z[:k2]
				if got, want := p.IsPrefix(q), k <= k2; got != want {
					return evid.Result{Err: fmt.Errorf("IsPrefix on slices of one name: %c[:%d].IsPrefix(%c[:%d]) = %v, want %v (%s)", label[i], k, label[i], k2, got, want, plain[i])}
				}
				if got, want := p.Equal(q), k == k2; got != want {
					return evid.Result{Err: fmt.Errorf("Equal on slices of one name: %c[:%d] vs %c[:%d] = %v, want %v (%s)", label[i], k, label[i], k2, got, want, plain[i])}
				}
				if got, want := sgn(p.Compare(q)), sgn(k-k2); got != want {
					return evid.Result{Err: fmt.Errorf("Compare on slices of one name: %c[:%d] vs %c[:%d] = %d, want %d (%s)", label[i], k, label[i], k2, got, want, plain[i])}
				}
			}
		}
	}

	// transitivity over all orderings of the triple
	for _, p := range [][3]int{{0, 1, 2}, {0, 2, 1}, {1, 0, 2}, {1, 2, 0}, {2, 0, 1}, {2, 1, 0}} {
		x, y, z := e1[p[0]], e1[p[1]], e1[p[2]]
		if x.Compare(y) <= 0 && y.Compare(z) <= 0 && x.Compare(z) > 0 {
			return evid.Result{Err: fmt.Errorf("Compare not transitive: %s <= %s <= %s but first > last", plain[p[0]], plain[p[1]], plain[p[2]])}
		}
	}
	// per-name laws
	for i := 0; i < 3; i++ {
		x := e1[i]
		if !bytes.Equal(x.Bytes(), refWire(plain[i])) && len(refWire(plain[i])) < 253 {
			// (encodings >= 253 bytes belong to C03; names here are far smaller)
			return evid.Result{Err: fmt.Errorf("Bytes() of %s = %x, harness encoder says %x", plain[i], x.Bytes(), refWire(plain[i]))}
		}
		ph := x.PrefixHash()
		if len(ph) != len(x)+1 {
			return evid.Result{Err: fmt.Errorf("PrefixHash of %s has %d entries, want %d", plain[i], len(ph), len(x)+1)}
		}
		for k := 0; k <= len(x); k++ {
			if h := e2[i][:k].Hash(); ph[k] != h {
				return evid.Result{Err: fmt.Errorf("PrefixHash()[%d] = %#x but Hash of the %d-component prefix = %#x: %s", k, ph[k], k, h, plain[i])}
			}
		}
		if cl := x.Clone(); !cl.Equal(x) || cl.Compare(x) != 0 || cl.Hash() != x.Hash() {
			return evid.Result{Err: fmt.Errorf("Clone of %s is not equal to it", plain[i])}
		}
	}
	// component-wise laws on aligned components of a and b, a and c
	for _, pr := range [][2]int{{0, 1}, {0, 2}, {1, 2}} {
		n := min(len(plain[pr[0]]), len(plain[pr[1]]))
		for k := 0; k < n; k++ {
			pa, pb := plain[pr[0]][k], plain[pr[1]][k]
			ca, cb := e1[pr[0]][k], e2[pr[1]][k]
			want := refCmpComp(pa, pb)
			if got := sgn(ca.Compare(cb)); got != want {
				return evid.Result{Err: fmt.Errorf("Component.Compare(%v,%v) = %d, canonical %d", pa, pb, got, want)}
			}
			if got := sgn(ca.Compare(&cb)); got != want {
				return evid.Result{Err: fmt.Errorf("Component.Compare(%v,*%v) = %d, canonical %d", pa, pb, got, want)}
			}
			if eq := ca.Equal(cb); eq != (want == 0) {
				return evid.Result{Err: fmt.Errorf("Component.Equal(%v,%v) = %v, canonical comparison %d", pa, pb, eq, want)}
			}
			if want == 0 && ca.Hash() != cb.Hash() {
				return evid.Result{Err: fmt.Errorf("equal components hash differently: %v", pa)}
			}
		}
	}
	res.NonTrivial = differShare >= 1
	ab, ac, bc := refCmpName(c.A, c.B), refCmpName(c.A, c.C), refCmpName(c.B, c.C)
	switch {
	case ab == 0 && ac == 0:
		res.Classes = append(res.Classes, "all-equal")
	case ab == 0 || ac == 0 || bc == 0:
		res.Classes = append(res.Classes, "two-equal")
	default:
		res.Classes = append(res.Classes, "all-distinct")
	}
	if differShare >= 1 {
		res.Classes = append(res.Classes, "differ-and-share-prefix")
	}
	if (refIsPrefix(c.A, c.B) || refIsPrefix(c.B, c.A)) && ab != 0 {
		res.Classes = append(res.Classes, "proper-prefix-pair")
	}
	if sameTypeDiffLen(c.A, c.B) || sameTypeDiffLen(c.A, c.C) || sameTypeDiffLen(c.B, c.C) {
		res.Classes = append(res.Classes, "first-difference-is-value-length")
	}
	if lenBytesConflict(c.A, c.B) || lenBytesConflict(c.A, c.C) || lenBytesConflict(c.B, c.C) {
		res.Classes = append(res.Classes, "length-order-and-byte-order-disagree")
	}
	if firstDiffType(c.A, c.B) || firstDiffType(c.A, c.C) || firstDiffType(c.B, c.C) {
		res.Classes = append(res.Classes, "first-difference-is-type")
	}
	return res
}

func addCount(m map[string]int, k string, n int) map[string]int {
	if m == nil {
		m = map[string]int{}
	}
	m[k] += n
	return m
}

func firstDiff(a, b Name) (Comp, Comp, bool) {
	k := commonPrefixLen(a, b)
	if k < len(a) && k < len(b) {
		return a[k], b[k], true
	}
	return Comp{}, Comp{}, false
}

func sameTypeDiffLen(a, b Name) bool {
	x, y, ok := firstDiff(a, b)
	return ok && x.T == y.T && len(x.V) != len(y.V)
}

func firstDiffType(a, b Name) bool {
	x, y, ok := firstDiff(a, b)
	return ok && x.T != y.T
}

// lenBytesConflict: at the first difference the shorter value has the larger bytes, so
// that "length before bytes" matters.
func lenBytesConflict(a, b Name) bool {
	x, y, ok := firstDiff(a, b)
	if !ok || x.T != y.T || len(x.V) == len(y.V) {
		return false
	}
	xv, yv := x.val(), y.val()
	if len(xv) > len(yv) {
		xv, yv = yv, xv
	}
	return bytes.Compare(xv, yv) > 0
}

const ruleOrder = "triples of names generated close to each other (copy, one byte / one value length / one type changed, boundary moved, truncated, extended); Compare vs the canonical comparator written from the spec and vs the lexicographic order of harness encodings, order axioms, Equal/IsPrefix/Hash/PrefixHash/Bytes coherence. Non-trivial: >=1 pair of names that differ and share a first component"

func TestC14Order(t *testing.T) {
	rec := evid.New("C14", "TestC14Order", ruleOrder)
	evid.Check(t, rec, genOrderCase, execOrder)
}

func TestC14OrderReplay(t *testing.T) { evid.Replay(t, "TestC14Order", execOrder) }

func TestC14OrderRegress(t *testing.T) { evid.Regress(t, "C14", "TestC14Order", execOrder) }
