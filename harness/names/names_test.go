// Package names decides C14: name order, equality, prefix relation, hashes and the URI form
// of std/encoding names are mutually consistent, and the URI parsers never panic.
//
// Everything the oracles need is re-derived here from the NDN packet specification
// (canonical order, TLV encoding through internal/tlvwalk); nothing is transcribed from
// std/encoding.
package names

import (
	"bytes"
	"encoding/hex"
	"fmt"

	enc "github.com/named-data/ndnd/std/encoding"
	"pgregory.net/rapid"

	"verif/harness/internal/tlvwalk"
)

// ---------------------------------------------------------------------------- plain-data names

// Comp is one name component as plain data: type number and hex-encoded value.
type Comp struct {
	T uint64 `json:"t"`
	V string `json:"v"`
}

// Name is a name as plain data.
type Name []Comp

func (c Comp) val() []byte {
	b, err := hex.DecodeString(c.V)
	if err != nil {
		panic("harness: bad hex in case: " + c.V)
	}
	return b
}

func mkComp(t uint64, v []byte) Comp { return Comp{T: t, V: hex.EncodeToString(v)} }

// emptyAs selects how an empty value is represented in the enc.Component handed to the
// code under test (nil slice or empty non-nil slice) -- both must behave identically.
func (n Name) toEnc(emptyAsNil bool) enc.Name {
	out := make(enc.Name, len(n))
	for i, c := range n {
		v := c.val()
		if len(v) == 0 {
			if emptyAsNil {
				v = nil
			} else {
				v = []byte{}
			}
		}
		out[i] = enc.Component{Typ: enc.TLNum(c.T), Val: v}
	}
	return out
}

func (n Name) clone() Name { return append(Name(nil), n...) }

func (n Name) String() string {
	s := ""
	for _, c := range n {
		s += fmt.Sprintf("/%d=%s", c.T, c.V)
	}
	if s == "" {
		return "/"
	}
	return s
}

// ---------------------------------------------------------------------------- reference (from the spec)

// NDN canonical order (packet spec, "Canonical Order"): components are compared by
// TLV-TYPE, then by TLV-LENGTH, then byte-wise by TLV-VALUE; names component by
// component, and a proper prefix sorts before the longer name.
func refCmpComp(a, b Comp) int {
	if a.T != b.T {
		if a.T < b.T {
			return -1
		}
		return 1
	}
	av, bv := a.val(), b.val()
	if len(av) != len(bv) {
		if len(av) < len(bv) {
			return -1
		}
		return 1
	}
	return bytes.Compare(av, bv)
}

func refCmpName(a, b Name) int {
	for i := 0; i < len(a) && i < len(b); i++ {
		if c := refCmpComp(a[i], b[i]); c != 0 {
			return c
		}
	}
	switch {
	case len(a) < len(b):
		return -1
	case len(a) > len(b):
		return 1
	}
	return 0
}

func refIsPrefix(a, b Name) bool {
	return len(a) <= len(b) && refCmpName(a, b[:len(a)]) == 0
}

// refValue is the encoding of the name's components (the value of the Name TLV) by the
// harness's own encoder; refWire adds the Name TL.
func refValue(n Name) []byte {
	var out []byte
	for _, c := range n {
		out = tlvwalk.AppendTLV(out, c.T, c.val())
	}
	return out
}

func refWire(n Name) []byte { return tlvwalk.EncodeTLV(tlvwalk.TName, refValue(n)) }

func commonPrefixLen(a, b Name) int {
	i := 0
	for i < len(a) && i < len(b) && refCmpComp(a[i], b[i]) == 0 {
		i++
	}
	return i
}

func sgn(x int) int {
	switch {
	case x < 0:
		return -1
	case x > 0:
		return 1
	}
	return 0
}

// sameEnc compares a name returned by the code under test with plain data.
func sameEnc(got enc.Name, want Name) bool {
	if len(got) != len(want) {
		return false
	}
	for i := range want {
		if uint64(got[i].Typ) != want[i].T || !bytes.Equal(got[i].Val, want[i].val()) {
			return false
		}
	}
	return true
}

func showEnc(n enc.Name) string {
	s := ""
	for _, c := range n {
		s += fmt.Sprintf("/%d=%x", uint64(c.Typ), c.Val)
	}
	if s == "" {
		return "/"
	}
	return s
}

// ---------------------------------------------------------------------------- generators

// numeric naming-convention types (std/encoding prints their value as a decimal number)
var numericTypes = []uint64{0x32, 0x34, 0x36, 0x38, 0x3a}

// digest types (printed as lower-case hex)
var hexTypes = []uint64{1, 2}

func isNumericType(t uint64) bool {
	for _, x := range numericTypes {
		if x == t {
			return true
		}
	}
	return false
}

var specialVals = [][]byte{
	{}, []byte("."), []byte(".."), []byte("..."), []byte("...."), []byte("%"), []byte("="), []byte("/"),
	[]byte("\\"), []byte("0"), []byte("123"), []byte("007"), []byte("v=1"), []byte("seg=5"), []byte("8=a"),
	[]byte("sha256digest=00"), []byte("params-sha256"), []byte("%41"), []byte("%4"), []byte("a%2Fb"),
	[]byte("a b"), []byte("~-_."), []byte("<x>"), []byte("<v=t>"), []byte("\x00"), []byte("\xff"),
	[]byte("\xc3\xa9"), []byte("\xc3"), []byte("A"), []byte("a"), []byte("b"), []byte("ab"), []byte("ba"),
	[]byte("KEY"), []byte("32=x"), []byte("+1"), []byte("-1"), []byte(" "), []byte("١"), // ARABIC-INDIC DIGIT ONE
}

var smallAlphabet = []byte{0x00, 0x01, 'a', 'b', 'A', '.', '%', '=', '/', 0xff, '~', '-', '_', ' ', '0', '9', '\\', 0x7f, 0x80}

var nniBoundaries = []uint64{0, 1, 2, 255, 256, 257, 65535, 65536, 65537, 1<<32 - 1, 1 << 32, 1<<32 + 1, 1<<63 - 1, 1 << 63, 1<<64 - 1}

func genShortestNumber(t *rapid.T) []byte {
	if rapid.IntRange(0, 2).Draw(t, "numKind") == 0 {
		return tlvwalk.EncodeNNI(rapid.Uint64().Draw(t, "num"))
	}
	return tlvwalk.EncodeNNI(rapid.SampledFrom(nniBoundaries).Draw(t, "numB"))
}

func genFreeVal(t *rapid.T) []byte {
	switch rapid.IntRange(0, 10).Draw(t, "valKind") {
	case 10:
		// a long value, around the sizes at which code that works in fixed blocks changes path (hash block
		// sizes, stack buffers, the 1/3-byte length boundary); close names then differ somewhere inside it
		n := rapid.SampledFrom([]int{15, 16, 17, 31, 32, 33, 47, 48, 49, 50, 56, 63, 64, 65, 72, 127, 128, 129, 252, 253, 256}).Draw(t, "longLen")
		v := make([]byte, n)
		fill := rapid.SampledFrom(smallAlphabet).Draw(t, "longFill")
		for i := range v {
			v[i] = fill
		}
		for k := rapid.IntRange(0, 3).Draw(t, "longSpots"); k > 0; k-- {
			v[rapid.IntRange(0, n-1).Draw(t, "longAt")] = rapid.Byte().Draw(t, "longByte")
		}
		return v
	case 0, 1, 2:
		return append([]byte(nil), rapid.SampledFrom(specialVals).Draw(t, "special")...)
	case 3, 4, 5:
		n := rapid.IntRange(0, 4).Draw(t, "n")
		v := make([]byte, n)
		for i := range v {
			v[i] = rapid.SampledFrom(smallAlphabet).Draw(t, "ch")
		}
		return v
	case 6:
		return []byte{rapid.Byte().Draw(t, "byte")} // sweeps all 256 byte values
	case 7:
		return genShortestNumber(t) // number-looking bytes in non-numeric types too
	default:
		return rapid.SliceOfN(rapid.Byte(), 0, 9).Draw(t, "bytes")
	}
}

// genType draws a component type. maxType bounds the "wide" draws.
func genType(t *rapid.T, maxType uint64) uint64 {
	switch rapid.IntRange(0, 11).Draw(t, "typKind") {
	case 0, 1, 2, 3, 4:
		return 8
	case 5:
		return rapid.SampledFrom(hexTypes).Draw(t, "hexTyp")
	case 6, 7:
		return rapid.SampledFrom(numericTypes).Draw(t, "numTyp")
	case 8:
		return rapid.SampledFrom([]uint64{32, 7, 9, 49, 51, 59, 252, 253, 254, 255, 256, 65534, 65535}).Draw(t, "edgeTyp")
	case 9:
		return rapid.Uint64Range(1, 65535).Draw(t, "anyTyp")
	default:
		if maxType > 65535 {
			return rapid.SampledFrom([]uint64{65536, 65537, 1<<32 - 1}).Draw(t, "bigTyp")
		}
		return 8
	}
}

// genComp draws a component. If inUriDomain, numeric-convention components get a
// shortest-form number as value (the only values the URI round trip is claimed for) and
// types stay within 1..65535.
func genComp(t *rapid.T, inUriDomain bool) Comp {
	maxType := uint64(1<<32 - 1)
	if inUriDomain {
		maxType = 65535
	}
	typ := genType(t, maxType)
	if isNumericType(typ) && (inUriDomain || rapid.IntRange(0, 3).Draw(t, "numShort") > 0) {
		return mkComp(typ, genShortestNumber(t))
	}
	return mkComp(typ, genFreeVal(t))
}

func genName(t *rapid.T, maxLen int, inUriDomain bool) Name {
	n := rapid.IntRange(0, maxLen).Draw(t, "ncomp")
	out := make(Name, n)
	for i := range out {
		out[i] = genComp(t, inUriDomain)
	}
	return out
}

// mutate returns a name "close" to n: equal, or differing in one byte, one value length,
// one type, or prefix-related.
func mutate(t *rapid.T, n Name) Name {
	m := n.clone()
	kind := rapid.IntRange(0, 11).Draw(t, "mut")
	if len(m) == 0 && kind >= 1 && kind <= 6 {
		kind = 8
	}
	switch kind {
	case 0: // equal copy
	case 1, 2: // change one byte of one value
		i := rapid.IntRange(0, len(m)-1).Draw(t, "mi")
		v := m[i].val()
		if len(v) == 0 {
			m[i] = mkComp(m[i].T, []byte{rapid.Byte().Draw(t, "nb")})
			break
		}
		j := rapid.IntRange(0, len(v)-1).Draw(t, "mj")
		switch rapid.IntRange(0, 2).Draw(t, "how") {
		case 0:
			v[j]++
		case 1:
			v[j]--
		default:
			v[j] ^= 1 << rapid.IntRange(0, 7).Draw(t, "bit")
		}
		m[i] = mkComp(m[i].T, v)
	case 3: // one value one byte longer (append / prepend)
		i := rapid.IntRange(0, len(m)-1).Draw(t, "mi")
		v := m[i].val()
		b := rapid.SampledFrom([]byte{0, 1, 'a', 0xff}).Draw(t, "xb")
		if rapid.Bool().Draw(t, "front") {
			v = append([]byte{b}, v...)
		} else {
			v = append(v, b)
		}
		m[i] = mkComp(m[i].T, v)
	case 4: // one value one byte shorter
		i := rapid.IntRange(0, len(m)-1).Draw(t, "mi")
		v := m[i].val()
		if len(v) > 0 {
			if rapid.Bool().Draw(t, "front") {
				v = v[1:]
			} else {
				v = v[:len(v)-1]
			}
		}
		m[i] = mkComp(m[i].T, v)
	case 5: // change one type
		i := rapid.IntRange(0, len(m)-1).Draw(t, "mi")
		nt := m[i].T
		switch rapid.IntRange(0, 3).Draw(t, "th") {
		case 0:
			nt++
		case 1:
			if nt > 1 {
				nt--
			}
		case 2:
			nt = genType(t, 1<<32-1)
		default:
			nt ^= 1 << rapid.IntRange(0, 15).Draw(t, "tbit")
			if nt == 0 {
				nt = 1
			}
		}
		m[i] = Comp{T: nt, V: m[i].V}
	case 6: // swap two components
		i := rapid.IntRange(0, len(m)-1).Draw(t, "mi")
		j := rapid.IntRange(0, len(m)-1).Draw(t, "mj")
		m[i], m[j] = m[j], m[i]
	case 7: // truncate
		if len(m) > 0 {
			m = m[:rapid.IntRange(0, len(m)-1).Draw(t, "cut")]
		}
	case 8, 9: // extend
		k := rapid.IntRange(1, 2).Draw(t, "ext")
		for i := 0; i < k; i++ {
			m = append(m, genComp(t, false))
		}
	case 10: // move the boundary between two adjacent components (same bytes, different split)
		if len(m) >= 2 {
			i := rapid.IntRange(0, len(m)-2).Draw(t, "mi")
			a, b := m[i].val(), m[i+1].val()
			if len(a) > 0 {
				b = append([]byte{a[len(a)-1]}, b...)
				a = a[:len(a)-1]
				m[i], m[i+1] = mkComp(m[i].T, a), mkComp(m[i+1].T, b)
			}
		}
	default: // unrelated name
		return genName(t, 4, false)
	}
	return m
}
