package names

import (
	"fmt"
	"strings"
	"testing"

	enc "github.com/named-data/ndnd/std/encoding"
	"pgregory.net/rapid"

	"verif/harness/internal/evid"
)

// C14 (URI part): String() then NameFromStr returns the same name, for every name in the
// domain the property states: component types in 1..65535, and components of the numeric
// naming conventions (seg=0x32, off=0x34, v=0x36, t=0x38, seq=0x3a -- the types whose value
// std/encoding prints as a decimal number) hold a shortest-form number (1, 2, 4 or 8 bytes,
// no leading zero bytes beyond what the size needs). The same per component through
// ComponentFromStr(String()) and ComponentFromStr(CanonicalString()).
//
// Out-of-domain components (numeric types with other values) are also generated, in a
// separate field: for them only "no panic" is required and CanonicalString (which prints
// the raw bytes) must still round-trip, since it involves no number formatting.

type UriCase struct {
	N   Name `json:"n"`             // inside the stated domain
	Out Name `json:"out,omitempty"` // numeric-convention components with non-shortest values
}

func genUriCase(t *rapid.T) UriCase {
	c := UriCase{N: genName(t, 6, true)}
	// bias: trailing / leading / only empty generic components
	switch rapid.IntRange(0, 9).Draw(t, "emptyBias") {
	case 0:
		c.N = append(c.N, mkComp(8, nil))
	case 1:
		c.N = append(Name{mkComp(8, nil)}, c.N...)
	case 2:
		c.N = append(c.N, mkComp(8, nil), mkComp(8, nil))
	case 3:
		c.N = append(c.N, mkComp(rapid.SampledFrom([]uint64{1, 2, 32, 50, 65535}).Draw(t, "emptyTyped"), nil))
		if isNumericType(c.N[len(c.N)-1].T) {
			c.N[len(c.N)-1] = mkComp(c.N[len(c.N)-1].T, []byte{0})
		}
	}
	if rapid.IntRange(0, 4).Draw(t, "withOut") == 0 {
		k := rapid.IntRange(1, 2).Draw(t, "nout")
		for i := 0; i < k; i++ {
			typ := rapid.SampledFrom(numericTypes).Draw(t, "outTyp")
			var v []byte
			switch rapid.IntRange(0, 3).Draw(t, "outKind") {
			case 0:
				v = nil
			case 1:
				v = append([]byte{0}, genShortestNumber(t)...) // leading zero
			case 2:
				v = rapid.SliceOfN(rapid.Byte(), 3, 3).Draw(t, "three")
			default:
				v = rapid.SliceOfN(rapid.Byte(), 9, 12).Draw(t, "long")
			}
			c.Out = append(c.Out, mkComp(typ, v))
		}
	}
	return c
}

func needsEscape(b byte) bool {
	switch {
	case 'a' <= b && b <= 'z', 'A' <= b && b <= 'Z', '0' <= b && b <= '9':
		return false
	case b == '-' || b == '_' || b == '.' || b == '~':
		return false
	}
	return true
}

func execUri(c UriCase) (res evid.Result) {
	defer func() {
		if r := recover(); r != nil {
			res.Err = fmt.Errorf("panic: %v", r)
		}
	}()
	for _, emptyNil := range []bool{true, false} {
		n := c.N.toEnc(emptyNil)
		s := n.String()
		back, err := enc.NameFromStr(s)
		if err != nil {
			return evid.Result{Err: fmt.Errorf("NameFromStr(String()) fails: name %s -> %q -> error %v", c.N, s, err)}
		}
		if !sameEnc(back, c.N) {
			return evid.Result{Err: fmt.Errorf("NameFromStr(String()) != name: %s -> %q -> %s", c.N, s, showEnc(back))}
		}
		if !back.Equal(n) || back.Compare(n) != 0 || back.Hash() != n.Hash() {
			return evid.Result{Err: fmt.Errorf("parsed-back name is not Equal/Compare==0/same hash: %s -> %q", c.N, s)}
		}
		if !strings.HasPrefix(s, "/") {
			return evid.Result{Err: fmt.Errorf("String() of %s = %q does not start with '/'", c.N, s)}
		}
		for i, comp := range n {
			for _, form := range []struct {
				what string
				s    string
			}{{"String", comp.String()}, {"CanonicalString", comp.CanonicalString()}} {
				bc, err := enc.ComponentFromStr(form.s)
				if err != nil {
					return evid.Result{Err: fmt.Errorf("ComponentFromStr(%s()) fails: %v -> %q -> error %v", form.what, c.N[i], form.s, err)}
				}
				if !sameEnc(enc.Name{bc}, Name{c.N[i]}) {
					return evid.Result{Err: fmt.Errorf("ComponentFromStr(%s()) != component: %v -> %q -> %s", form.what, c.N[i], form.s, showEnc(enc.Name{bc}))}
				}
				if strings.ContainsAny(form.s, "/") {
					return evid.Result{Err: fmt.Errorf("%s() of %v = %q contains '/'", form.what, c.N[i], form.s)}
				}
			}
		}
	}
	// outside the stated domain: no panic; CanonicalString still round-trips
	for _, oc := range c.Out {
		comp := Name{oc}.toEnc(true)[0]
		_, _ = enc.ComponentFromStr(comp.String())
		_, _ = enc.NameFromStr(enc.Name{comp}.String())
		cs := comp.CanonicalString()
		bc, err := enc.ComponentFromStr(cs)
		if err != nil || !sameEnc(enc.Name{bc}, Name{oc}) {
			return evid.Result{Err: fmt.Errorf("ComponentFromStr(CanonicalString()) != component: %v -> %q -> %s (err %v)", oc, cs, showEnc(enc.Name{bc}), err)}
		}
		res.Classes = append(res.Classes, "has-out-of-domain-numeric(no-panic-only)")
	}
	// classification
	esc, typed, num, hexd, emptyGeneric, dots := false, false, false, false, false, false
	for _, comp := range c.N {
		v := comp.val()
		if comp.T != 8 {
			typed = true
		}
		if isNumericType(comp.T) {
			num = true
		} else if comp.T == 1 || comp.T == 2 {
			hexd = true
		} else {
			for _, b := range v {
				if needsEscape(b) {
					esc = true
				}
			}
			if comp.T == 8 && len(v) == 0 {
				emptyGeneric = true
			}
			if len(v) > 0 && strings.Trim(string(v), ".") == "" {
				dots = true
			}
		}
	}
	res.NonTrivial = esc || typed
	for k, v := range map[string]bool{"needs-escaping": esc, "typed-component": typed, "numeric-convention": num,
		"digest-hex": hexd, "empty-generic-component": emptyGeneric, "dots-only-component": dots, "empty-name": len(c.N) == 0} {
		if v {
			res.Classes = append(res.Classes, k)
		}
	}
	sortStrings(res.Classes)
	return res
}

func sortStrings(s []string) {
	for i := 1; i < len(s); i++ {
		for j := i; j > 0 && s[j] < s[j-1]; j-- {
			s[j], s[j-1] = s[j-1], s[j]
		}
	}
}

const ruleUri = "names with component types in 1..65535 (generic, both digest types, seg/off/v/t/seq with shortest-form numbers, keyword, 252/253/65535, random), values over all 256 bytes, empty, dots, '%', '=', '/', '\\\\', convention-looking text; String()->NameFromStr and per component String()/CanonicalString()->ComponentFromStr must return the same name. Non-trivial: >=1 byte that needs escaping or >=1 typed component"

func TestC14Uri(t *testing.T) {
	rec := evid.New("C14", "TestC14Uri", ruleUri)
	evid.Check(t, rec, genUriCase, execUri)
}

func TestC14UriReplay(t *testing.T) { evid.Replay(t, "TestC14Uri", execUri) }

func TestC14UriRegress(t *testing.T) { evid.Regress(t, "C14", "TestC14Uri", execUri) }
