package names

import (
	"encoding/hex"
	"fmt"
	"sort"
	"testing"
	"testing/synctest"

	"github.com/named-data/ndnd/fw/core"
	"github.com/named-data/ndnd/fw/table"
	enc "github.com/named-data/ndnd/std/encoding"
	"github.com/named-data/ndnd/std/engine/basic"
	"github.com/named-data/ndnd/std/log"
	"github.com/named-data/ndnd/std/ndn"
	spec "github.com/named-data/ndnd/std/ndn/spec_2022"
	"github.com/named-data/ndnd/std/object"
	sec "github.com/named-data/ndnd/std/security"
	"pgregory.net/rapid"

	"verif/harness/internal/evid"
)

// TestC14Containers: the name-keyed containers listed among C14's anchors -- the
// application engine's NameTrie (std/engine/basic/simple_trie.go), the forwarder's PIT/CS
// name tree (fw/table/pit-cs-tree.go) and the in-memory object store
// (std/object/store_memory.go) -- must tell names apart exactly as name equality and the
// prefix relation do. Each builds its own key from a component (a string form, a hash, a
// URI); if that key drops the type, or is ambiguous between "<type>=<value>" and a generic
// component with that text, two unequal names share a node. Names are drawn adversarially
// close (the mutations of TestC14Order plus typed/escaped twins).
// (Added after the three seeded defects of round 3 for C14, all in these containers, were
// missed by the units that look at Name's own methods.)

type ContCase struct {
	Stored  []Name `json:"stored"`
	Queries []Name `json:"queries"`
}

// twin returns a name in which one component is replaced by its look-alike: a typed
// component <-> the generic component whose value is the text "<type>=<value>", or the same
// value under another type.
func twin(t *rapid.T, n Name) Name {
	m := n.clone()
	if len(m) == 0 {
		return m
	}
	i := rapid.IntRange(0, len(m)-1).Draw(t, "ti")
	c := m[i]
	if len(m) >= 2 && rapid.IntRange(0, 3).Draw(t, "hashTwin") == 0 {
		// the same bytes split differently between a value and the next component's type when
		// both are written as "8-byte type, value" without a length: /8=%00/256= and /8=/1=%00
		// (a hash built that way collides by construction; found by the thorough tier, now a
		// generated class)
		j := rapid.IntRange(0, len(m)-2).Draw(t, "hj")
		a, b := m[j], m[j+1]
		if av := a.val(); len(av) > 0 && av[len(av)-1] == 0 && b.T >= 256 {
			m[j] = mkComp(a.T, av[:len(av)-1])
			m[j+1] = mkComp(b.T>>8, append([]byte{byte(b.T)}, b.val()...))
			return m
		}
		if bv := b.val(); len(bv) > 0 && b.T < 1<<24 && (b.T<<8|uint64(bv[0])) >= 1 {
			m[j] = mkComp(a.T, append(a.val(), 0))
			m[j+1] = mkComp(b.T<<8|uint64(bv[0]), bv[1:])
			return m
		}
	}
	switch rapid.IntRange(0, 2).Draw(t, "twinKind") {
	case 0: // same value, other type
		nt := rapid.SampledFrom([]uint64{8, 32, 50, 54, 1, 2, 65535}).Draw(t, "ttype")
		if nt == c.T {
			nt++
		}
		m[i] = Comp{T: nt, V: c.V}
	case 1: // typed -> generic with the text form of the typed component
		m[i] = mkComp(8, append([]byte(fmt.Sprintf("%d=", c.T)), c.val()...))
	default: // generic "<n>=<rest>" -> typed
		m[i] = mkComp(8, append([]byte("32="), c.val()...))
		if rapid.Bool().Draw(t, "asTyped") {
			m[i] = mkComp(32, c.val())
		}
	}
	return m
}

func genContCase(t *rapid.T) ContCase {
	var c ContCase
	base := genName(t, 4, false)
	pool := []Name{base}
	n := rapid.IntRange(1, 6).Draw(t, "nstored")
	for i := 0; i < n; i++ {
		from := pool[rapid.IntRange(0, len(pool)-1).Draw(t, "from")]
		var x Name
		if rapid.IntRange(0, 2).Draw(t, "how") == 0 {
			x = twin(t, from)
		} else {
			x = mutate(t, from)
		}
		pool = append(pool, x)
		c.Stored = append(c.Stored, x)
	}
	q := rapid.IntRange(1, 8).Draw(t, "nqueries")
	for i := 0; i < q; i++ {
		from := pool[rapid.IntRange(0, len(pool)-1).Draw(t, "qfrom")]
		switch rapid.IntRange(0, 3).Draw(t, "qhow") {
		case 0:
			c.Queries = append(c.Queries, from.clone())
		case 1:
			c.Queries = append(c.Queries, twin(t, from))
		default:
			c.Queries = append(c.Queries, mutate(t, from))
		}
	}
	return c
}

func keyOf(n Name) string { return hex.EncodeToString(refWire(n)) }

var contSigner = sec.NewSha256Signer()

func execContainers(t *testing.T) func(ContCase) evid.Result {
	return func(c ContCase) (res evid.Result) {
		synctest.Test(t, func(*testing.T) {
			defer func() {
				if r := recover(); r != nil {
					res.Err = fmt.Errorf("panic: %v", r)
				}
			}()
			res = runContainers(c)
		})
		return res
	}
}

func runContainers(c ContCase) (res evid.Result) {
	log.SetLevel(log.FatalLevel)
	fail := func(f string, a ...any) evid.Result {
		res.Err = fmt.Errorf(f, a...)
		return res
	}
	// reference: stored names by encoding; index of the latest store per name
	ref := map[string]int{}
	for i, n := range c.Stored {
		ref[keyOf(n)] = i
	}
	closePairs := 0
	for i := range c.Stored {
		for j := i + 1; j < len(c.Stored); j++ {
			a, b := c.Stored[i], c.Stored[j]
			if keyOf(a) != keyOf(b) && len(a) == len(b) && commonPrefixLen(a, b) >= len(a)-1 {
				closePairs++
			}
		}
	}
	// deepest stored-name prefix of q (number of components q shares with some stored name)
	deepest := func(q Name) int {
		d := 0
		for _, s := range c.Stored {
			if k := commonPrefixLen(s, q); k > d {
				d = k
			}
		}
		return d
	}

	// ---- 1. NameTrie
	trie := basic.NewNameTrie[int]()
	for i, n := range c.Stored {
		trie.MatchAlways(n.toEnc(false)).SetValue(i + 1)
	}
	for _, q := range c.Queries {
		node := trie.ExactMatch(q.toEnc(false))
		want, stored := ref[keyOf(q)]
		switch {
		case stored && (node == nil || node.Value() != want+1):
			return fail("NameTrie: ExactMatch(%s) does not return the node holding the value stored under that name (stored: %s)", q, namesStr(c.Stored))
		case !stored && node != nil && node.Value() != 0:
			return fail("NameTrie: ExactMatch(%s) returns the value stored under the different name %s", q, c.Stored[node.Value()-1])
		}
		if pm := trie.PrefixMatch(q.toEnc(false)); pm == nil || pm.Depth() != deepest(q) {
			d := -1
			if pm != nil {
				d = pm.Depth()
			}
			return fail("NameTrie: PrefixMatch(%s) ends at depth %d; the stored names share at most %d leading components with it (stored: %s)", q, d, deepest(q), namesStr(c.Stored))
		}
	}

	// ---- 2. in-memory object store
	store := object.NewMemoryStore()
	for i, n := range c.Stored {
		if err := store.Put(n.toEnc(false), uint64(i+1), []byte{byte(i + 1)}); err != nil {
			return fail("MemoryStore.Put(%s): %v", n, err)
		}
	}
	for _, q := range c.Queries {
		got, err := store.Get(q.toEnc(false), false)
		if err != nil {
			return fail("MemoryStore.Get(%s): %v", q, err)
		}
		want, stored := ref[keyOf(q)]
		switch {
		case stored && (len(got) != 1 || int(got[0]) != want+1):
			return fail("MemoryStore: exact Get(%s) returns %x, stored under that name: %x", q, got, want+1)
		case !stored && got != nil:
			return fail("MemoryStore: exact Get(%s) returns the packet stored under the different name %s", q, c.Stored[int(got[0])-1])
		}
		// prefix query: the newest version among the stored names that q is a prefix of
		newest := 0
		for k, i := range ref {
			_ = k
			if refIsPrefix(q, c.Stored[i]) && i+1 > newest {
				newest = i + 1
			}
		}
		got, err = store.Get(q.toEnc(false), true)
		if err != nil {
			return fail("MemoryStore.Get(%s, prefix): %v", q, err)
		}
		if stored && len(got) == 1 && int(got[0]) == want+1 {
			// a packet stored under the queried name itself: whether that one or a newer one
			// below it is "the newest with the given prefix" is the store's business (C15), not
			// a question of telling names apart
			continue
		}
		switch {
		case newest == 0 && got != nil:
			return fail("MemoryStore: prefix Get(%s) returns the packet stored under %s, which that name is not a prefix of", q, c.Stored[int(got[0])-1])
		case newest != 0 && (len(got) != 1 || int(got[0]) != newest):
			return fail("MemoryStore: prefix Get(%s) returns %x; the newest packet stored under that prefix is %x (%s)", q, got, newest, c.Stored[newest-1])
		}
	}

	// ---- 3. the forwarder's PIT/CS name tree
	core.LoadConfig(core.DefaultConfig(), "")
	table.Configure()
	core.ShouldQuit = false
	pcs := table.NewPitCS(func(table.PitEntry) {})
	defer func() {
		core.ShouldQuit = true
		<-pcs.UpdateTimer()
		pcs.Update()
		core.ShouldQuit = false
	}()
	wires := map[string][]byte{}
	for i, n := range c.Stored {
		ed, err := spec.Spec{}.MakeData(n.toEnc(false), &ndn.DataConfig{}, enc.Wire{[]byte{byte(i + 1)}}, contSigner)
		if err != nil {
			return fail("harness: MakeData(%s): %v", n, err)
		}
		w := ed.Wire.Join()
		p, _, err := spec.ReadPacket(enc.NewBufferReader(w))
		if err != nil || p.Data == nil {
			return fail("harness: cannot parse own Data %s: %v", n, err)
		}
		pcs.InsertData(p.Data, w)
		wires[keyOf(n)] = w
		pcs.InsertInterest(&spec.Interest{NameV: n.toEnc(false), NonceV: utilsPtr(uint32(i + 1))}, nil, uint64(100+i))
	}
	for _, q := range c.Queries {
		e := pcs.FindMatchingDataFromCS(&spec.Interest{NameV: q.toEnc(false)})
		_, stored := ref[keyOf(q)]
		switch {
		case stored && e == nil:
			return fail("PIT/CS tree: the packet cached under %s is not found by an exact-name lookup (cached: %s)", q, namesStr(c.Stored))
		case !stored && e != nil:
			return fail("PIT/CS tree: an exact-name lookup of %s is answered from the cache although nothing was cached under that name (cached: %s)", q, namesStr(c.Stored))
		case stored:
			if _, w, err := e.Copy(); err != nil || string(w) != string(wires[keyOf(q)]) {
				return fail("PIT/CS tree: the lookup of %s returns a packet other than the one cached under that name", q)
			}
		}
		pe := pcs.FindInterestExactMatchEnc(&spec.Interest{NameV: q.toEnc(false)})
		switch {
		case stored && pe == nil:
			return fail("PIT/CS tree: the pending Interest %s is not found by an exact-match lookup", q)
		case !stored && pe != nil:
			return fail("PIT/CS tree: an exact-match lookup of %s finds the pending Interest for the different name %s", q, pe.EncName())
		}
		// Data named q satisfies exactly the pending (non-CanBePrefix) Interests named q
		ms := pcs.FindInterestPrefixMatchByDataEnc(&spec.Data{NameV: q.toEnc(false)}, nil)
		var got []string
		for _, m := range ms {
			got = append(got, m.EncName().String())
		}
		sort.Strings(got)
		want := []string{}
		if stored {
			want = append(want, q.toEnc(false).String())
		}
		if fmt.Sprint(got) != fmt.Sprint(want) {
			return fail("PIT/CS tree: Data named %s matches the pending Interests %v; those with that exact name are %v", q, got, want)
		}
	}
	res.NonTrivial = closePairs > 0
	if closePairs > 0 {
		res.Classes = append(res.Classes, "stored-names-differing-in-one-component")
	}
	return res
}

func utilsPtr[T any](v T) *T { return &v }

func namesStr(ns []Name) string {
	out := make([]string, len(ns))
	for i, n := range ns {
		out[i] = n.String()
	}
	return fmt.Sprint(out)
}

const ruleCont = "1..6 names stored and 1..8 names looked up, all drawn adversarially close to one another (one byte / length / type changed, boundary moved, prefix-related, typed vs generic twins such as 32=a vs the generic component with the text '32=a'), in each of: the application engine's NameTrie (MatchAlways/ExactMatch/PrefixMatch), the in-memory object store (Put, exact and prefix Get with versions) and the forwarder's PIT/CS name tree (InsertData + exact CS lookup, InsertInterest + exact PIT lookup + match by Data name); each container must distinguish exactly the names whose encodings differ, and its prefix walks must follow the prefix relation. Non-trivial: two stored names of equal length differing in exactly one component; distinct by case hash"

func TestC14Containers(t *testing.T) {
	rec := evid.New("C14", "TestC14Containers", ruleCont)
	evid.Check(t, rec, genContCase, execContainers(t))
}

func TestC14ContainersReplay(t *testing.T) { evid.Replay(t, "TestC14Containers", execContainers(t)) }

func TestC14ContainersRegress(t *testing.T) {
	evid.Regress(t, "C14", "TestC14Containers", execContainers(t))
}
